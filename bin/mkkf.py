import json,subprocess
fixed=[
 ("C02","1b1760b","compile_expr(dest=d) returned the cached/constant qubit instead of accumulating into d; e.g. fast profile 'return a * 3' (Qint[3]->Qint[6]) and ~100 of 600 random 5-variable boolean programs mis-synthesised"),
 ("C02","909f536","sub-expressions xor-accumulated into a non-fresh destination were recorded in the expression cache (a.0&a.1 'found' on the _ret.3 accumulator of a*3)"),
 ("C02","fc57eb3","compile_not applied X in place on a cached qubit still used as control: min(a,2) on Qint[2] with the fast profile computed _ret.1 wrongly for a=0"),
 ("C02","f5d7203","compile_or with three or more operands emitted a^b^c^(abc): 'return c or ((b and d) ^ (a or b or d))' wrong for a=b=d=1,c=0 (default profile)"),
 ("C04","8db65be","transform_or2xor rewrote (a&b&c)|(~a&~b&~c) to ~(a^b): differs on a=b=0,c=1 (13 of the or-of-two-ands shapes, default, fast and the single step)"),
 ("C01","0890f4c","Qint[2] a > Qint[4] b true whenever b>=4; a <= 5 on Qint[2] always False; 0 < a false for a=4 (gt/lt/lte/gte with a wider right operand or constant)"),
 ("C01","a52d15b","Qint[2] a - Qint[4] b: 2-1 gave 13; a - 7 on Qint[3] gave 8 for a=7 (left operand complemented before widening)"),
 ("C01","c95c0b0","a*0 returned a; a*14 wrong; Qint[4] 12*6 lost bit 6 (mul_even_const)"),
 ("C01","4d7a90e","a % 3 compiled as a & 2, a % 6 as a & 5 (constant modulus that is not a power of two is now rejected)"),
 ("C01","70c02fc","tuple a != b required every bit to differ: (True,0) != (False,0) was False"),
 ("C01","cc48cd1","b = a; return b with a: Tuple[Qint[2], bool] defined _ret.0.._ret.2 instead of _ret.0.0,_ret.0.1,_ret.1 (return bits undefined; C02/C05: output_qubits raised KeyError)"),
 ("C07","d4c1f38","g(u[1]) with u: Tuple[Qint[2],Qint[2]] left g_x.0/g_x.1 free in the caller; g((t[1],t[0])) ignored the swap; Qint[2] actual for a Qint[4] formal left g_x.2/g_x.3 free"),
 ("C07","4734634","oraclize(f, y) with f named 'oracle' renamed the caller's object to '_oracle'"),
 ("C07","ddf6ee2","caller variables named g_x/g_y passed crosswise: g(g_y, g_x) evaluated g(g_x, g_x) (sequential substitution; 'simultaneus' typo)"),
 ("C09","17fbc95","Qfixed4_4/Qfixed4_6: bits 1000.... (1.x) re-encoded as 0100.... (2.x) by to_bool/to_bin/const"),
 ("C09","726113d","Qfixed.to_amplitudes one-hot at the big-endian index: Qfixed1_2 bits 011 -> index 3 instead of 6"),
 ("C11","53f99b8","any circuit containing the I gate: Decompiler.decompile raised 'Gate not handled for decompilation: I'"),
 ("C12","66ccc78","cx01 cx10 cx01 (and the other five 3-CX swaps, also barrier-separated) optimized to the empty circuit"),
]
out=[json.dumps({"fixed":"property=%s %s %s"%f}) for f in fixed]
import sys
for pid in sys.argv[1:]:
    r=subprocess.check_output(['/verif/bin/triage',pid],text=True)
    out+= [l for l in r.split('\n') if l.strip()]
open('/verif/known_findings.jsonl','w').write('\n'.join(out)+'\n')
print(len(out))
