"""qv: solver-based checking of dakk/qlasskit (see /verif/DESIGN.md)."""
