"""Shared pieces for C15 / C16: stub black boxes with a symbolic oracle gate, the oracle contract
for compiled black boxes, and symbolic decode_output checks."""
import typing

import z3

from . import boolq, circ, qamp, symx


def arg_src(n):
    """an argument type of n bits"""
    if n == 1:
        return "bool"
    if n in (2, 3, 4, 5, 6, 7, 8):
        return "Qint[%d]" % n
    raise ValueError(n)


def stub(n, m=1, scratch_before=0, scratch_after=0, name="f"):
    """A real QlassF (real args/returns) whose circuit is [inputs | scratch | ret.. | scratch] with a
    single SymOracle gate: the abstract black box |x>|y> -> |x>|y xor f(x)>, scratch untouched."""
    from qlasskit import QCircuit, qlassf

    ret = "bool" if m == 1 else "Qint[%d]" % m
    body = "True" if m == 1 else "0"
    qf = qlassf("def %s(x: %s) -> %s:\n    return %s\n" % (name, arg_src(n), ret, body), to_compile=False)
    qc = QCircuit(n, name=name)
    # the input qubits carry the argument's bit names
    qc.qubit_map = {}
    for i, b in enumerate(qf.args[0].bitvec):
        qc.qubit_map[b] = i
    for k in range(scratch_before):
        qc.add_qubit("anc_b%d" % k)
    outs = [qc.add_qubit("_ret" if m == 1 else "_ret.%d" % k) for k in range(m)]
    for k in range(scratch_after):
        qc.add_qubit("anc_a%d" % k)
    qc.append(qamp.SymOracle(n, m), list(range(n)) + outs)
    qf._qcircuit = qc
    return qf, outs


def oracle_vars(n, m):
    """one-hot integer indicators g[x,v] and the function value F[x] they encode"""
    F = [z3.Int("F%d" % x) for x in range(1 << n)]
    V = {}
    cons = []
    if m == 1:
        # single output bit: the indicators are the 0/1 integers themselves (purely linear)
        for x in range(1 << n):
            cons += [F[x] >= 0, F[x] <= 1]
            V[("g", x, 1)] = F[x]
            V[("g", x, 0)] = 1 - F[x]
        return F, V, cons
    for x in range(1 << n):
        cons += [F[x] >= 0, F[x] < (1 << m)]
        for v in range(1 << m):
            V[("g", x, v)] = z3.If(F[x] == v, 1, 0)
    return F, V, cons


def amp_nonzero(a, V, N):
    return z3.Or(*[t != 0 for t in qamp.aff_to_z3(a, V, N)])


def reg_value(i, qubits):
    return sum(qamp.bit(i, q) << k for k, q in enumerate(qubits))


# ---------------------------------------------------------------- oracle contract (C03 /\ C06, multi-output)
def oracle_contract(qf, st, fspec=None):
    """For a compiled black box: for all x and all initial values y of the output qubits, the circuit
    maps |x>|y>|0> to |x>|y xor f(x)>|0> where f is the meaning of its own return expressions.
    Returns list of (kind, what)."""
    out = []
    qc = qf.circuit()
    ins = circ.input_bits(qf)
    rets = list(qf.returns.bitvec)
    if any(r not in qc.qubit_map for r in rets):
        return [("contract-unmapped", "return bits without a qubit")]
    oq = [qc.qubit_map[r] for r in rets]
    n_in = len(ins)
    if len(set(oq)) != len(oq) or any(q < n_in for q in oq):
        return [("contract-shared-output", "output qubits %s are shared or lie on inputs" % oq)]
    ys = {q: z3.Bool("__y%d" % j) for j, q in enumerate(oq)}
    try:
        env, init, fin, qc = circ.encode(qf, ys)
    except (boolq.FreeSymbol, boolq.Unsupported) as e:
        return [("contract-unreadable", str(e))]
    s = z3.Solver()
    s.set("rlimit", 50_000_000)
    bad = []
    for i in range(qc.num_qubits):
        if i < n_in:
            bad.append(("input-changed", z3.Xor(fin[i], init[i])))
        elif i in ys:
            r = rets[oq.index(i)]
            bad.append(("not-xor", z3.Xor(fin[i], z3.Xor(init[i], env[r]))))
        else:
            bad.append(("dirty-qubit", fin[i]))
    for kind in ("input-changed", "not-xor", "dirty-qubit"):
        terms = [t for k, t in bad if k == kind]
        if not terms:
            continue
        v = st.check(s, z3.Or(*terms))
        if v == "sat":
            m = s.model()
            asg = boolq.model_bools(m, ins)
            extra = {q: bool(z3.is_true(m.eval(y, model_completion=True))) for q, y in ys.items()}
            bits, res = circ.concrete_run(qf, asg, extra)
            want = boolq.eval_exprs_concrete(qf.expressions, asg)
            ok = True
            if kind == "input-changed":
                ok = all(res[i] == bits[i] for i in range(n_in))
            elif kind == "dirty-qubit":
                ok = not any(res[i] for i in range(n_in, qc.num_qubits) if i not in ys)
            else:
                ok = all(res[q] == (bits[q] ^ want[r]) for q, r in zip(oq, rets))
            if not ok:
                out.append((kind, "x=%s y=%s" % (asg, extra)))
            else:
                out.append(("HARNESS", "contract counterexample did not reproduce"))
        elif v != "unsat":
            out.append(("HARNESS", "solver " + v))
    return out


# ---------------------------------------------------------------- decode_output, symbolically
def twin_algo(tw, cls_name, real_algo, real_f):
    """an instance of the twin's algorithm class that shares the real object's data but whose
    argument types are the twin's (so that decode_output runs on z3 proxies)"""
    from .props.c05 import mirror

    import importlib

    mod = importlib.import_module(symx.ALIAS + ".algorithms." + {"DeutschJozsa": "deutschjozsa", "BernsteinVazirani": "bernsteinvazirani", "Simon": "simon", "Grover": "grover"}[cls_name])
    cls = getattr(mod, cls_name)
    obj = cls.__new__(cls)
    fm = mirror(tw, real_f)
    if cls_name == "Grover":
        obj.oracle = fm
    else:
        obj.f = fm
    obj._qcircuit = real_algo.circuit()
    return obj, fm


def decode_check(tw, cls_name, real_algo, real_f, st, expect="value"):
    """decode_output(s) on a symbolic measured string over the algorithm's output qubits returns the
    value whose bit k is the measurement of output qubit k (rightmost character = first reported
    qubit). Returns list of (kind, what)."""
    from .props.c05 import leaf_terms

    obj, fm = twin_algo(tw, cls_name, real_algo, real_f)
    n = len(real_algo.output_qubits)
    cs = [z3.Int("m%d" % i) for i in range(n)]
    base = [z3.Or(c == 48, c == 49) for c in cs]
    sx = symx.SxStr([symx.SxChar(c) for c in cs])
    paths, aborted = symx.explore(lambda: obj.decode_output(sx), base=base, stats=st, maxpaths=300)
    if aborted or not paths:
        return [("HARNESS", "decode_output: %d paths aborted" % aborted)]
    argt = fm.args[0].ttype
    out = []
    s = z3.Solver()
    s.set("rlimit", 50_000_000)
    # bit k of the argument = char n-1-k
    qbit = lambda k: cs[n - 1 - k] == 49
    for pc, extra, r in paths:
        s.push()
        s.add(*base, *pc, *extra)
        if r[0] == "exc":
            if st.check(s) == "sat":
                out.append(("decode-raises", "%s: %s" % (type(r[1]).__name__, str(r[1])[:80])))
            s.pop()
            continue
        val = r[1]
        if expect == "dj":
            allzero = z3.And(*[z3.Not(qbit(k)) for k in range(n)])
            if val not in ("Constant", "Balanced"):
                out.append(("decode-wrong", "decode_output returned %r" % (val,)))
            else:
                want_const = val == "Constant"
                v = st.check(s, allzero != z3.BoolVal(want_const))
                if v == "sat":
                    m = s.model()
                    reading = "".join(chr(m.eval(c, model_completion=True).as_long()) for c in cs)
                    real = real_algo.decode_output(reading)
                    exp = "Constant" if set(reading) <= {"0"} else "Balanced"
                    if real != exp:
                        out.append(("decode-wrong", "reading %s decodes to %r, expected %r" % (reading, real, exp)))
                    else:
                        out.append(("HARNESS", "decode counterexample did not reproduce"))
            s.pop()
            continue
        try:
            lt = leaf_terms(val, argt)
        except Exception as e:
            out.append(("decode-wrong", "decode_output returned %r (%s)" % (val, e)))
            s.pop()
            continue
        # expected per leaf from the bit convention
        bad = []
        k = 0

        def walk(t):
            nonlocal k
            if t is bool:
                e = ("bool", qbit(k))
                k += 1
                return [e]
            if hasattr(t, "BIT_SIZE"):
                w = t.BIT_SIZE
                if t.__name__.startswith("Qfixed"):
                    i_, f_ = t.BIT_SIZE_INTEGER, t.BIT_SIZE_FRACTIONAL
                    e = ("fixed", z3.Sum([z3.If(qbit(k + j), 2 ** (f_ + j), 0) for j in range(i_)] + [z3.If(qbit(k + i_ + j), 2 ** (f_ - 1 - j), 0) for j in range(f_)]))
                else:
                    e = ("int", z3.Sum([z3.If(qbit(k + j), 2 ** j, 0) for j in range(w)]))
                k += w
                return [e]
            r_ = []
            for a in typing.get_args(t):
                r_ += walk(a)
            return r_

        exp = walk(argt)
        for (k1, a), (k2, b) in zip(lt, exp):
            if k2 == "bool":
                bad.append(z3.Xor(a, b))
            elif k2 == "int":
                bad.append(a != b)
            else:
                bad.append(a != z3.ToReal(b))
        v = st.check(s, z3.Or(*bad)) if bad else "unsat"
        if v == "sat":
            m = s.model()
            reading = "".join(chr(m.eval(c, model_completion=True).as_long()) for c in cs)
            real = real_algo.decode_output(reading)
            from . import refsem
            from .props.c05 import conc_val

            try:
                # expected bits from the convention
                want_bits = [reading[n - 1 - j] == "1" for j in range(n)]
                got_bits = real_value_bits(conc_val(real), real_f.args[0].ttype)
                if got_bits != want_bits:
                    out.append(("decode-wrong", "reading %s decodes to %r whose encoding is %s, the measured qubits are %s" % (reading, real, got_bits, want_bits)))
                else:
                    out.append(("HARNESS", "decode counterexample did not reproduce"))
            except Exception as e:
                out.append(("decode-wrong", "reading %s decodes to %r (%s)" % (reading, real, e)))
        elif v != "unsat":
            out.append(("HARNESS", "solver " + v))
        s.pop()
    return out


def real_value_bits(v, t):
    if t is bool:
        return [bool(v)]
    if hasattr(t, "BIT_SIZE"):
        return [bool(b) for b in t(v).to_bool()] if not isinstance(v, t) else [bool(b) for b in v.to_bool()]
    out = []
    for x, a in zip(v, typing.get_args(t)):
        out += real_value_bits(x, a)
    return out
