"""Engine A (BoolEq): sympy Boolean terms and classical gate lists as z3 Bool terms."""
import z3
from sympy import Symbol
from sympy.logic.boolalg import (
    ITE,
    And,
    BooleanFalse,
    BooleanTrue,
    Implies,
    Not,
    Or,
    Xor,
    Equivalent,
    Nand,
    Nor,
    Xnor,
)

from qlasskit.qcircuit import gates


class FreeSymbol(Exception):
    pass


class Unsupported(Exception):
    pass


def s2z(e, env):
    """sympy Boolean -> z3 Bool under env: name -> z3 term. Raises FreeSymbol / Unsupported."""
    if e is True or isinstance(e, BooleanTrue):
        return z3.BoolVal(True)
    if e is False or isinstance(e, BooleanFalse):
        return z3.BoolVal(False)
    if isinstance(e, Symbol):
        if e.name in env:
            return env[e.name]
        raise FreeSymbol(e.name)
    if not hasattr(e, "args"):
        raise Unsupported(repr(type(e)))
    a = [s2z(x, env) for x in e.args]
    if isinstance(e, And):
        return z3.And(*a) if a else z3.BoolVal(True)
    if isinstance(e, Or):
        return z3.Or(*a) if a else z3.BoolVal(False)
    if isinstance(e, Not):
        return z3.Not(a[0])
    if isinstance(e, Xnor):
        r = a[0]
        for x in a[1:]:
            r = z3.Xor(r, x)
        return z3.Not(r)
    if isinstance(e, Xor):
        r = a[0] if a else z3.BoolVal(False)
        for x in a[1:]:
            r = z3.Xor(r, x)
        return r
    if isinstance(e, ITE):
        return z3.If(a[0], a[1], a[2])
    if isinstance(e, Implies):
        return z3.Implies(a[0], a[1])
    if isinstance(e, Equivalent):
        return z3.And(*[a[i] == a[i + 1] for i in range(len(a) - 1)])
    if isinstance(e, Nand):
        return z3.Not(z3.And(*a))
    if isinstance(e, Nor):
        return z3.Not(z3.Or(*a))
    raise Unsupported(type(e).__name__)


def seq_env(exprs, inputs):
    """Sequential meaning of a definition list [(Symbol, expr)] over free input bit names."""
    env = {b: z3.Bool(b) for b in inputs}
    for s, e in exprs:
        env[s.name] = s2z(e, env)
    return env


def is_classical(g):
    if isinstance(g, gates.NopGate):
        return True
    if isinstance(g, gates.X) and not isinstance(g, gates.QControlledGate):
        return True
    if isinstance(g, gates.QControlledGate) and isinstance(g.gate, gates.X):
        return True
    if isinstance(g, gates.Swap) or isinstance(g, gates.I):
        return True
    return False


def simcirc(gatelist, state, wires=None):
    """Interpret X/CX/CCX/MCX/MCtrl(X)/Swap/I/Nop gates on a list of z3 Bools (one per qubit).
    wires: optional list mapping the gate list's qubit index -> index into state."""
    st = list(state)
    m = (lambda i: i) if wires is None else (lambda i: wires[i])
    for g, w, p in gatelist:
        if isinstance(g, gates.NopGate) or isinstance(g, gates.I):
            continue
        if isinstance(g, gates.Swap):
            a, b = m(w[0]), m(w[1])
            st[a], st[b] = st[b], st[a]
        elif isinstance(g, gates.QControlledGate) and isinstance(g.gate, gates.X):
            if len(w) != g.n_controls + 1:
                raise Unsupported("arity of %r: %r" % (g, w))
            t = m(w[-1])
            cs = [st[m(i)] for i in w[:-1]]
            st[t] = z3.Xor(st[t], z3.And(*cs)) if cs else z3.Not(st[t])
        elif isinstance(g, gates.X):
            st[m(w[0])] = z3.Not(st[m(w[0])])
        else:
            raise Unsupported("non-classical gate %r" % (g,))
    return st


def simcirc_concrete(gatelist, bits):
    """The same semantics on Python bools (independent 10-line simulator used for replay)."""
    st = list(bits)
    for g, w, p in gatelist:
        if isinstance(g, gates.NopGate) or isinstance(g, gates.I):
            continue
        if isinstance(g, gates.Swap):
            st[w[0]], st[w[1]] = st[w[1]], st[w[0]]
        elif isinstance(g, gates.QControlledGate) and isinstance(g.gate, gates.X):
            if all(st[i] for i in w[:-1]):
                st[w[-1]] = not st[w[-1]]
        elif isinstance(g, gates.X):
            st[w[0]] = not st[w[0]]
        else:
            raise Unsupported("non-classical gate %r" % (g,))
    return st


def eval_exprs_concrete(exprs, assignment):
    """Evaluate a sequential definition list with sympy itself (subs) on a concrete assignment
    name -> bool.  Returns name -> bool for every defined symbol (later definitions shadow)."""
    from sympy import true, false

    val = {Symbol(k): (true if v else false) for k, v in assignment.items()}
    out = dict(assignment)
    for s, e in exprs:
        r = e.xreplace(val) if hasattr(e, "xreplace") else e
        r = r.simplify() if hasattr(r, "simplify") and not isinstance(r, (BooleanTrue, BooleanFalse, bool)) else r
        if isinstance(r, BooleanTrue) or r is True:
            b = True
        elif isinstance(r, BooleanFalse) or r is False:
            b = False
        else:
            raise FreeSymbol("expression %s does not evaluate: %s" % (s, r))
        val[s] = true if b else false
        out[s.name] = b
    return out


def model_bools(model, names):
    out = {}
    for n in names:
        v = model.eval(z3.Bool(n), model_completion=True)
        out[n] = bool(z3.is_true(v))
    return out


def selftest(n=120, seed=7):
    """Translator validation: random sympy terms / gate lists evaluated concretely vs model.eval
    of the translation. Returns number of comparisons; raises AssertionError on disagreement."""
    import random

    rnd = random.Random(seed)
    names = ["a", "b", "c", "d"]
    syms = [Symbol(x) for x in names]

    def rterm(d):
        if d == 0 or rnd.random() < 0.2:
            return rnd.choice(syms + [BooleanTrue(), BooleanFalse()])
        k = rnd.choice(["and", "or", "not", "xor", "ite", "imp"])
        if k == "not":
            return Not(rterm(d - 1), evaluate=False)
        if k == "ite":
            return ITE(rterm(d - 1), rterm(d - 1), rterm(d - 1))
        if k == "imp":
            return Implies(rterm(d - 1), rterm(d - 1), evaluate=False)
        cls = {"and": And, "or": Or, "xor": Xor}[k]
        return cls(*[rterm(d - 1) for _ in range(rnd.choice([2, 2, 3]))], evaluate=(k == "xor"))

    cnt = 0
    for _ in range(n):
        e = rterm(3)
        asg = {x: rnd.random() < 0.5 for x in names}
        env = {x: z3.BoolVal(v) for x, v in asg.items()}
        zt = z3.simplify(s2z(e, env))
        want = eval_exprs_concrete([(Symbol("r"), e)], asg)["r"]
        assert z3.is_true(zt) == want, ("s2z selftest", e, asg)
        cnt += 1
    from qlasskit import QCircuit
    from qlasskit.qcircuit import CNotSim

    for _ in range(n // 2):
        qc = QCircuit(4)
        for _ in range(rnd.randint(1, 8)):
            k = rnd.choice(["x", "cx", "ccx", "mcx"])
            ws = rnd.sample(range(4), 4)
            if k == "x":
                qc.x(ws[0])
            elif k == "cx":
                qc.cx(ws[0], ws[1])
            elif k == "ccx":
                qc.ccx(ws[0], ws[1], ws[2])
            else:
                qc.mcx(ws[:3], ws[3])
        bits = [rnd.random() < 0.5 for _ in range(4)]
        z = simcirc(qc.gates, [z3.BoolVal(b) for b in bits])
        got = [z3.is_true(z3.simplify(t)) for t in z]
        assert got == CNotSim().simulate(qc, initialize=bits), "simcirc vs CNotSim"
        assert got == simcirc_concrete(qc.gates, bits), "simcirc vs concrete"
        cnt += 2
    return cnt
