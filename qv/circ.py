"""Shared machinery for C02 / C03 / C06: compile a corpus program with the real InternalCompiler and
decide circuit-vs-expressions obligations with engine A."""
import z3

from . import boolq
from .common import Stats

OPTS = None


def opts():
    global OPTS
    if OPTS is None:
        from qlasskit.boolopt import defaultOptimizer, fastOptimizer

        OPTS = {"default": defaultOptimizer, "fast": fastOptimizer}
    return OPTS


def compile_prog(spec):
    """returns (qf, None) or (None, reason)"""
    from qlasskit import qlassf

    kw = dict(bool_optimizer=opts()[spec.get("opt", "default")])
    defs = []
    for dsrc in spec.get("defs", []):
        defs.append(qlassf(dsrc, to_compile=False, defs=list(defs)))
    try:
        qf = qlassf(spec["src"], to_compile=False, defs=defs, **kw)
    except Exception as e:  # front-end rejects: not a compiled function
        return None, "front-end raises %s" % type(e).__name__
    from qlasskit import QlassF

    if not isinstance(qf, QlassF):
        return None, "unbound (parameters)"
    U = spec.get("uncompute", True)
    try:
        if spec.get("history"):
            # the judged compilation comes after other compilations of the same source in this process:
            # another object compiled with the opposite flag and the other profile, and this very object
            # compiled with the opposite flag first (what is asked for last is what must be delivered)
            try:
                other = qlassf(spec["src"], to_compile=False, defs=defs, bool_optimizer=opts()["fast" if spec.get("opt", "default") == "default" else "default"])
                other.compile("internal", uncompute=not U)
                qlassf(spec["src"], to_compile=True, defs=defs, uncompute=not U, **kw)
            except Exception:
                pass
            qf.compile("internal", uncompute=not U)
        qf.compile("internal", uncompute=U)
    except Exception as e:
        return None, "compile raises %s: %s" % (type(e).__name__, str(e)[:80])
    return qf, None


def input_bits(qf):
    return [b for a in qf.args for b in a.bitvec]


def has_quantum(qf):
    from qlasskit.boolquant import QuantumBooleanGate

    for s, e in qf.expressions:
        if hasattr(e, "atoms") and e.atoms(QuantumBooleanGate):
            return True
        if hasattr(e, "has") and e.has(QuantumBooleanGate):
            return True
    return False


def encode(qf, yinit=None):
    """Symbolic run of the compiled circuit. yinit: dict qubit index -> z3 term for qubits that
    do not start at |0> (C06). Returns env (meaning of expressions), init, fin, qc."""
    qc = qf.circuit()
    ins = input_bits(qf)
    env = boolq.seq_env(qf.expressions, ins)
    n_in = len(ins)
    init = [z3.Bool(b) for b in ins] + [z3.BoolVal(False)] * (qc.num_qubits - n_in)
    for i, t in (yinit or {}).items():
        init[i] = t
    fin = boolq.simcirc(qc.gates, init)
    return env, init, fin, qc


def concrete_run(qf, inbits, extra=None):
    """replay on the real gate list: independent python bit simulator AND the repo's CNotSim."""
    from qlasskit.qcircuit import CNotSim

    qc = qf.circuit()
    ins = input_bits(qf)
    bits = [bool(inbits[b]) for b in ins] + [False] * (qc.num_qubits - len(ins))
    for i, v in (extra or {}).items():
        bits[i] = bool(v)
    a = boolq.simcirc_concrete(qc.gates, bits)
    try:
        b = CNotSim().simulate(qc, initialize=list(bits))
    except Exception:
        b = a
    if a != b:
        raise AssertionError("bit simulator and CNotSim disagree")
    return bits, a
