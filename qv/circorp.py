"""U-circ: finite deterministic universes of circuits, as JSON gate lists built through qlasskit's
public QCircuit API."""
import itertools
import math
import random


def build(glist, nq, name="qc"):
    from qlasskit import QCircuit
    from qlasskit.qcircuit import gates

    qc = QCircuit(nq, name=name)
    for g in glist:
        k, w = g[0], g[1]
        if k == "x":
            qc.x(w[0])
        elif k == "h":
            qc.h(w[0])
        elif k == "z":
            qc.z(w[0])
        elif k == "y":
            qc.y(w[0])
        elif k == "s":
            qc.s(w[0])
        elif k == "t":
            qc.t(w[0])
        elif k == "cx":
            qc.cx(w[0], w[1])
        elif k == "cz":
            qc.cz(w[0], w[1])
        elif k == "ccx":
            qc.ccx(w[0], w[1], w[2])
        elif k == "mcx":
            qc.mcx(w[:-1], w[-1])
        elif k == "mcz":
            qc.mctrl(gates.Z(), w[:-1], w[-1])
        elif k == "mctrlx":
            qc.mctrl(gates.X(), w[:-1], w[-1])
        elif k == "swap":
            qc.swap(w[0], w[1])
        elif k == "cp":
            qc.cp(g[2], w[0], w[1])
        elif k == "barrier":
            qc.barrier(g[2] if len(g) > 2 else None)
        elif k == "i":
            qc.append(gates.I(), [w[0]])
        else:
            raise ValueError(k)
    return qc


def alphabet(nq=3, classical=True, h=True, barrier=True, extra=()):
    A = []
    if classical:
        for q in range(nq):
            A.append(["x", [q]])
        for a, b in itertools.permutations(range(nq), 2):
            A.append(["cx", [a, b]])
        for t in range(nq):
            cs = [q for q in range(nq) if q != t]
            if len(cs) >= 2:
                A.append(["ccx", cs[:2] + [t]])
    if h:
        for q in range(nq):
            A.append(["h", [q]])
    if barrier:
        A.append(["barrier", []])
    A += list(extra)
    return A


def show(glist):
    return " ".join("%s%s" % (g[0], "".join(map(str, g[1]))) + (("(%.3f)" % g[2]) if len(g) > 2 and isinstance(g[2], float) else "") for g in glist) or "<empty>"


def enum_batches(alpha, prefix_len, depth):
    """batch specs: every prefix of length prefix_len; the worker appends every suffix of
    length 0..depth (0 only for the first batch member to avoid duplicates)"""
    out = []
    for pre in itertools.product(range(len(alpha)), repeat=prefix_len):
        out.append({"prefix": [alpha[i] for i in pre], "depth": depth})
    return out


def suffixes(alpha, depth):
    for d in range(0, depth + 1):
        for suf in itertools.product(alpha, repeat=d):
            yield list(suf)


FULL = ["x", "y", "z", "h", "s", "t", "cx", "cz", "ccx", "swap", "cp", "mcx3", "mcz", "barrier", "i"]


def random_circuit(rnd, nq, n, kinds=FULL, phases=(math.pi, math.pi / 2, math.pi / 4, -math.pi / 4, math.pi / 8, 3 * math.pi / 4)):
    gl = []
    for _ in range(n):
        k = rnd.choice(kinds)
        if k in ("x", "y", "z", "h", "s", "t", "i"):
            gl.append([k, [rnd.randrange(nq)]])
        elif k in ("cx", "cz", "swap"):
            gl.append([k, rnd.sample(range(nq), 2)])
        elif k == "cp":
            gl.append(["cp", rnd.sample(range(nq), 2), rnd.choice(phases)])
        elif k == "ccx" and nq >= 3:
            gl.append(["ccx", rnd.sample(range(nq), 3)])
        elif k == "mcx3" and nq >= 4:
            gl.append(["mcx", rnd.sample(range(nq), 4)])
        elif k == "mcz" and nq >= 3:
            gl.append(["mcz", rnd.sample(range(nq), 3)])
        elif k == "mczv" and nq >= 2:  # Z with 1..nq-1 controls
            gl.append(["mcz", rnd.sample(range(nq), rnd.randint(2, nq))])
        elif k == "mcxv" and nq >= 3:  # X with 2..nq-1 controls, as MCX or as MCtrl(X)
            gl.append([rnd.choice(["mcx", "mctrlx"]), rnd.sample(range(nq), rnd.randint(3, nq))])
        elif k == "barrier":
            gl.append(["barrier", []])
    return gl


def fixed_random(n, seed, nq_choices=(3, 4, 5), length=(3, 10), kinds=FULL):
    rnd = random.Random(seed)
    out = []
    for i in range(n):
        nq = nq_choices[i % len(nq_choices)]
        out.append({"nq": nq, "gates": random_circuit(rnd, nq, rnd.randint(*length), kinds)})
    return out
