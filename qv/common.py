"""Shared runner: items -> workers -> verdicts -> evidence / known findings / replay files.

Every property module exposes
    PID, LEVEL, make_items(tier, seed) -> list[spec dict], check_item(spec) -> result dict,
    coverage_extra(results) -> dict (optional), ASSUMPTIONS, FUNCS
A spec is a JSON-serialisable dict; its id is the sha1 of its canonical JSON.
check_item returns
    {"status": "ok" | "skip" | "inconclusive",
     "findings": [ {"kind": str, "what": str, "cex": {...}, "replayed": bool} ... ],
     "queries": int, "sat": int, "unsat": int, "unknown": int, "solver_s": float,
     "nontrivial": bool, "note": str}
A finding is a *replayed* counterexample.  A counterexample that does not reproduce on the
real code must be returned as status "inconclusive" (harness error), never as a finding.
"""
import hashlib
import json
import multiprocessing as mp
import os
import signal
import sys
import time
import traceback

VERIF = os.path.dirname(os.path.dirname(os.path.abspath(__file__)))
# build-time aid: QV_OUT redirects everything a run writes (evidence, replays, .last) so that seeded
# changes can be evaluated in scratch worktrees (QV_REPO, see bin/check) without touching /verif's files
OUT = os.environ.get("QV_OUT") or VERIF
EXIT_OK, EXIT_VIOL, EXIT_HARNESS = 0, 1, 2


def canon(spec):
    return json.dumps(spec, sort_keys=True, separators=(",", ":"))


def item_id(spec):
    return hashlib.sha1(canon(spec).encode()).hexdigest()[:12]


class ItemTimeout(BaseException):
    pass


def _alarm(signum, frame):
    raise ItemTimeout()


_WORKER_FN = None
_WORKER_CAP = 120


def _init_worker(modname, cap):
    global _WORKER_FN, _WORKER_CAP
    if os.environ.get("QV_XEVERY"):
        Stats.XEVERY = int(os.environ["QV_XEVERY"])
    import importlib

    mod = importlib.import_module(modname)
    _WORKER_FN = mod.check_item
    _WORKER_CAP = cap
    if hasattr(mod, "worker_init"):
        mod.worker_init()


def _run_one(spec):
    import io
    import contextlib

    t0 = time.time()
    # the per-item cap counts the worker's own CPU time (ITIMER_PROF), so that a loaded machine cannot
    # turn a pass into "inconclusive"; a wall-clock alarm at 8x the cap is only a backstop
    signal.signal(signal.SIGALRM, _alarm)
    signal.signal(signal.SIGPROF, _alarm)
    signal.setitimer(signal.ITIMER_PROF, float(spec.get("_cap", _WORKER_CAP)))
    signal.alarm(8 * int(spec.get("_cap", _WORKER_CAP)))
    # harness hygiene: functions defined from a string are exec'd into qlasskit.qlassfun's globals
    # (C10's territory, not claimed); a corpus function named like a builtin (sum, max, abs, ...) would
    # shadow that builtin for every later item of this worker, so such names are removed between items
    qfm = sys.modules.get("qlasskit.qlassfun")
    if qfm is not None:
        for nm in ("abs", "len", "min", "max", "sum", "any", "all", "chr", "ord", "int", "float", "print", "range"):
            qfm.__dict__.pop(nm, None)
    try:
        with contextlib.redirect_stdout(io.StringIO()):
            r = _WORKER_FN(spec)
    except ItemTimeout:
        r = {"status": "inconclusive", "note": "per-item cap hit", "findings": []}
    except Exception:
        r = {
            "status": "inconclusive",
            "note": "harness exception: " + traceback.format_exc()[-1500:],
            "findings": [],
        }
    finally:
        signal.setitimer(signal.ITIMER_PROF, 0)
        signal.alarm(0)
    r.setdefault("findings", [])
    r["wall_s"] = round(time.time() - t0, 3)
    r["id"] = item_id(spec)
    return r


def run_items(modname, specs, cap=120, nproc=None):
    nproc = nproc or min(16, os.cpu_count() or 4)
    if len(specs) <= 2 or os.environ.get("QV_SERIAL"):
        _init_worker(modname, cap)
        return [_run_one(s) for s in specs]
    ctx = mp.get_context("fork")
    with ctx.Pool(nproc, initializer=_init_worker, initargs=(modname, cap), maxtasksperchild=200) as pool:
        return pool.map(_run_one, specs, chunksize=1)


def load_known(pid):
    """known_findings.jsonl: one JSON object per line, either
    {"property","item","kind","what"}   (an open finding)  or
    {"fixed": "property=<id> <commit> <what>"}  (informational, suppresses nothing)."""
    known = {}
    path = os.path.join(VERIF, "known_findings.jsonl")
    if not os.path.exists(path):
        return known
    for line in open(path):
        line = line.strip()
        if not line or line.startswith("#"):
            continue
        o = json.loads(line)
        if "fixed" in o:
            continue
        if o.get("property") == pid:
            known[(o["item"], o["kind"])] = o
    return known


def slice_quick(specs, seed, core, extra):
    """quick tier: first `core` items of the fixed universe plus `extra` items chosen by seed."""
    import random

    if len(specs) <= core + extra:
        return list(specs)
    rest = specs[core:]
    rnd = random.Random(seed)
    idx = sorted(rnd.sample(range(len(rest)), extra))
    return list(specs[:core]) + [rest[i] for i in idx]


def main_for(mod, argv=None):
    argv = list(sys.argv[1:] if argv is None else argv)
    pid = mod.PID
    if argv and argv[0] == "--replay":
        return replay(mod, argv[1])
    tier = argv[0] if argv else os.environ.get("VERIF_TIER", "quick")
    if tier not in ("quick", "thorough"):
        tier = "quick"
    seed = int(os.environ.get("VERIF_SEED", "0") or 0)
    t0 = time.time()
    if tier == "thorough":
        os.environ.setdefault("QV_XEVERY", "41")
    specs = mod.make_items(tier, seed)
    cap = getattr(mod, "ITEM_CAP", {"quick": 120, "thorough": 600})[tier]
    results = run_items(mod.__name__, specs, cap=cap)
    return finish(mod, tier, seed, specs, results, t0)


def finish(mod, tier, seed, specs, results, t0):
    pid = mod.PID
    known = load_known(pid)
    os.makedirs(os.path.join(OUT, "replays", pid), exist_ok=True)
    for old in os.listdir(os.path.join(OUT, "replays", pid)):  # replay files of earlier runs
        if old.endswith(".json"):
            try:
                os.unlink(os.path.join(OUT, "replays", pid, old))
            except OSError:
                pass
    n_viol = 0
    n_known = 0
    inconclusive = []
    tot = dict(queries=0, sat=0, unsat=0, unknown=0, solver_s=0.0, xchecked=0, xmismatch=0)
    seen_known = set()
    out_lines = []
    for spec, r in zip(specs, results):
        for k in ("queries", "sat", "unsat", "unknown", "xchecked", "xmismatch"):
            tot[k] += int(r.get(k, 0))
        tot["solver_s"] += float(r.get("solver_s", 0.0))
        if r["status"] == "inconclusive":
            inconclusive.append({"item": r["id"], "note": r.get("note", ""), "spec": spec})
        for f in r["findings"]:
            key = (r["id"], f["kind"])
            if key in known:
                if key not in seen_known:
                    seen_known.add(key)
                    n_known += 1
                    out_lines.append(
                        "KNOWN-FINDING: property=%s item=%s kind=%s %s"
                        % (pid, r["id"], f["kind"], known[key].get("what", f.get("what", ""))[:160])
                    )
                continue
            n_viol += 1
            path = os.path.join(OUT, "replays", pid, "%s-%s.json" % (r["id"], f["kind"]))
            with open(path, "w") as fh:
                json.dump({"property": pid, "item": r["id"], "spec": spec, "finding": f}, fh, indent=1, default=str)
            if n_viol <= 20:
                out_lines.append("VIOLATION property=%s replay=%s" % (pid, path))
                out_lines.append("  item=%s kind=%s %s" % (r["id"], f["kind"], f.get("what", "")[:300]))
    wall = time.time() - t0
    cov = mod.coverage(specs, results) if hasattr(mod, "coverage") else {}
    cov.setdefault("items", len(specs))
    cov["queries_discharged"] = tot["queries"]
    cov["solver_verdicts"] = {"sat": tot["sat"], "unsat": tot["unsat"], "unknown": tot["unknown"]}
    cov["solver_seconds"] = round(tot["solver_s"], 2)
    cov["cross_checked_with_cvc5"] = {"queries": tot["xchecked"], "disagreements": tot["xmismatch"]}
    cov["known_findings_matched"] = n_known
    # vacuity guard over the whole run: items the harness declined to judge (program rejected by
    # the front-end, outside the stated bounds, ...) are counted and explained; a run that skips
    # more than the allowed share of its corpus decides nothing and is reported as inconclusive
    skipped = [r for r in results if r["status"] == "skip"]
    reasons = {}
    for r in skipped:
        k = "".join("N" if ch.isdigit() else ch for ch in str(r.get("note", ""))[:70])
        reasons[k] = reasons.get(k, 0) + 1
    cov["skipped_items"] = {"count": len(skipped), "reasons": dict(sorted(reasons.items(), key=lambda kv: -kv[1])[:12])}
    max_skip = getattr(mod, "MAX_SKIP_FRACTION", 0.15)
    if specs and len(skipped) > max_skip * len(specs):
        inconclusive.append({"item": "-", "note": "%d of %d items skipped (> %d%%): %s" % (len(skipped), len(specs), int(max_skip * 100), cov["skipped_items"]["reasons"]), "spec": None})
    cov["inconclusive_items"] = inconclusive[:10]
    cov["inconclusive_count"] = len(inconclusive)
    cov["functions_encoded"] = getattr(mod, "FUNCS", [])
    _b = getattr(mod, "BOUNDS", "")
    cov["bounds"] = _b.get(tier, _b) if isinstance(_b, dict) else _b
    cov["outside_bounds"] = getattr(mod, "OUTSIDE", "")
    ev = {
        "property_id": pid,
        "tier": tier,
        "seed": seed,
        "level": mod.LEVEL,
        "coverage": cov,
        "assumptions": getattr(mod, "ASSUMPTIONS", []),
        "wall_s": round(wall, 2),
        "violations": n_viol,
    }
    os.makedirs(os.path.join(OUT, "evidence"), exist_ok=True)
    with open(os.path.join(OUT, "evidence", pid + ".json"), "w") as fh:
        json.dump(ev, fh, indent=1, default=str)
    try:  # build-time debugging aid (git-ignored): per-item timing and status
        os.makedirs(os.path.join(OUT, ".last"), exist_ok=True)
        with open(os.path.join(OUT, ".last", pid + ".json"), "w") as fh:
            json.dump([{"spec": sp, "status": r["status"], "wall_s": r.get("wall_s"), "note": r.get("note", "")[:200], "cls": r.get("cls"), "kinds": [f["kind"] for f in r["findings"]]} for sp, r in zip(specs, results)], fh, default=str)
    except Exception:
        pass
    for line in out_lines:
        print(line)
    print(
        "%s %s: items=%d queries=%d (sat=%d unsat=%d unknown=%d) solver=%.1fs violations=%d known=%d inconclusive=%d wall=%.1fs"
        % (pid, tier, len(specs), tot["queries"], tot["sat"], tot["unsat"], tot["unknown"], tot["solver_s"], n_viol, n_known, len(inconclusive), wall)
    )
    if n_viol:
        return EXIT_VIOL
    if inconclusive:
        for i in inconclusive[:5]:
            print("INCONCLUSIVE item=%s %s" % (i["item"], i["note"][:400]))
        return EXIT_HARNESS
    return EXIT_OK


def replay(mod, path):
    o = json.load(open(path))
    _init_worker(mod.__name__, 600)
    r = _run_one(o["spec"])
    print(json.dumps(r, indent=1, default=str)[:4000])
    bad = [f for f in r["findings"]]
    if bad:
        print("VIOLATION property=%s replay=%s" % (mod.PID, path))
        return EXIT_VIOL
    return EXIT_OK if r["status"] != "inconclusive" else EXIT_HARNESS


class Stats:
    """per-item solver statistics"""

    XEVERY = 0  # >0: every XEVERY-th query is re-decided by cvc5 (thorough tier)

    def __init__(self):
        self.queries = self.sat = self.unsat = self.unknown = 0
        self.solver_s = 0.0
        self.xchecked = self.xmismatch = 0

    def check(self, solver, *assumptions):
        import z3

        t = time.time()
        r = solver.check(*assumptions)
        self.solver_s += time.time() - t
        self.queries += 1
        s = str(r)
        if Stats.XEVERY and self.queries % Stats.XEVERY == 1 and s in ("sat", "unsat"):
            try:
                other = cvc5_verdict(solver, assumptions)
                if other in ("sat", "unsat"):
                    self.xchecked += 1
                    if other != s:
                        self.xmismatch += 1
            except Exception:
                pass
        if s == "sat":
            self.sat += 1
        elif s == "unsat":
            self.unsat += 1
        else:
            self.unknown += 1
            if os.environ.get("QV_DEBUG_UNKNOWN"):
                import traceback

                sys.stderr.write("UNKNOWN verdict (%s) at\n%s\n" % (solver.reason_unknown(), "".join(traceback.format_stack(limit=4))))
        return s

    def into(self, d):
        d.update(queries=self.queries, sat=self.sat, unsat=self.unsat, unknown=self.unknown, solver_s=round(self.solver_s, 4), xchecked=self.xchecked, xmismatch=self.xmismatch)
        if self.xmismatch and d.get("status") == "ok":
            d.update(status="inconclusive", note="z3 and cvc5 disagree on %d re-decided queries" % self.xmismatch)
        return d


def cvc5_verdict(solver, assumptions, tlimit_ms=5000):
    """re-decide the query (solver assertions + assumptions) with cvc5 from the SMT-LIB2 dump"""
    import cvc5
    import z3

    s2 = z3.Solver()
    s2.add(*solver.assertions())
    s2.add(*assumptions)
    txt = s2.to_smt2()
    slv = cvc5.Solver()
    slv.setOption("tlimit-per", str(tlimit_ms))
    slv.setLogic("ALL")
    p = cvc5.InputParser(slv)
    p.setStringInput(cvc5.InputLanguage.SMT_LIB_2_6, txt, "q")
    sm = p.getSymbolManager()
    res = None
    while True:
        cmd = p.nextCommand()
        if cmd.isNull():
            break
        out = str(cmd.invoke(slv, sm)).strip()
        if out in ("sat", "unsat", "unknown"):
            res = out
    return res
