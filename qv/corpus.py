"""Finite, deterministic program universes (DESIGN §3.1). No dependence on VERIF_SEED here."""
import ast
import glob
import itertools
import os
import random
import textwrap

REPO = "/repo"


def _f(args, ret, body, name="prog"):
    if isinstance(body, str):
        body = [body]
    return "def %s(%s) -> %s:\n" % (name, ", ".join(args), ret) + "".join("    %s\n" % b for b in body)


# ---------------------------------------------------------------- U-bool
def u_bool_small():
    """hand-picked core + all n-ary and/or literal patterns (4 vars) + or-of-ands shapes."""
    out = []
    V = ["a", "b", "c", "d"]
    core = [
        "a", "not a", "a and b", "a or b", "a ^ b", "a == b", "a != b", "a and not b", "not (a and b)",
        "not (a or b)", "a if b else c", "(a and b) or (not a and not b)", "(a and b) or (c and d)",
        "a ^ b ^ c", "(a ^ b) and c", "not (a ^ b) and c", "a and (b or c)", "a or (b and c)",
        "(a or b) and (c or d)", "a ^ (b and not (c ^ d))", "(a and b and c) or (not a and not b and not c)",
        "(a and b and c) or (not a and not b)", "a and b and c and d", "a or b or c or d",
        "(a or b or c) and d", "True", "False", "a and True", "a or False", "a and not a", "a or not a",
        "(a if b else c) ^ d", "(a and b) if c else (a or d)", "not (a if b else not c)",
        "(a == b) and (c != d)", "((a and b) ^ (c and d)) or (a and d)",
    ]
    for e in core:
        out.append(("bool-core", _f(["a: bool", "b: bool", "c: bool", "d: bool"], "bool", "return " + e)))
    for op in ("and", "or"):
        for k in (2, 3, 4):
            for vs in itertools.combinations(V, k):
                for pol in itertools.product([0, 1], repeat=k):
                    lits = [("not " + v) if p else v for v, p in zip(vs, pol)]
                    out.append(("bool-nary", _f(["a: bool", "b: bool", "c: bool", "d: bool"], "bool", "return " + (" %s " % op).join(lits))))
    return out


def u_bool_or_of_ands():
    """Or of two Ands of 2..3 literals over 4 symbols with all polarities (or->xnor rule territory)."""
    V = ["a", "b", "c", "d"]
    out = []
    terms = []
    for k in (2, 3):
        for vs in itertools.combinations(V, k):
            for pol in itertools.product([0, 1], repeat=k):
                terms.append(" and ".join(("not " + v) if p else v for v, p in zip(vs, pol)))
    for i, t1 in enumerate(terms):
        for t2 in terms[i + 1 :]:
            out.append(("bool-orand", _f(["a: bool", "b: bool", "c: bool", "d: bool"], "bool", "return (%s) or (%s)" % (t1, t2))))
    return out


def _rand_bool_expr(rnd, vars_, depth):
    if depth == 0 or rnd.random() < 0.15:
        v = rnd.choice(vars_)
        return v if rnd.random() < 0.7 else "(not %s)" % v
    k = rnd.choice(["and", "or", "^", "==", "!=", "not", "if", "and3", "or3"])
    r = lambda: _rand_bool_expr(rnd, vars_, depth - 1)
    if k == "not":
        return "(not %s)" % r()
    if k == "if":
        return "(%s if %s else %s)" % (r(), r(), r())
    if k == "and3":
        return "(%s and %s and %s)" % (r(), r(), r())
    if k == "or3":
        return "(%s or %s or %s)" % (r(), r(), r())
    return "(%s %s %s)" % (r(), k, r())


def u_bool_random(n=600, seed=1234, nvars=5):
    rnd = random.Random(seed)
    V = ["a", "b", "c", "d", "e"][:nvars]
    out = []
    for i in range(n):
        d = 3 if i % 2 == 0 else 4
        e = _rand_bool_expr(rnd, V, d)
        out.append(("bool-rand", _f([v + ": bool" for v in V], "bool", "return " + e)))
    return out


def u_bool_multistmt(n=200, seed=99):
    """several assignments with shared intermediates + tuple of bool returns"""
    rnd = random.Random(seed)
    V = ["a", "b", "c", "d"]
    out = []
    for i in range(n):
        body = []
        names = list(V)
        for j in range(rnd.randint(1, 3)):
            nm = "t%d" % j
            body.append("%s = %s" % (nm, _rand_bool_expr(rnd, names, 2)))
            names.append(nm)
        if i % 3 == 0:
            body.append("return (%s, %s)" % (_rand_bool_expr(rnd, names, 1), _rand_bool_expr(rnd, names, 2)))
            ret = "Tuple[bool, bool]"
        else:
            body.append("return " + _rand_bool_expr(rnd, names, 2))
            ret = "bool"
        out.append(("bool-multi", _f([v + ": bool" for v in V], ret, body)))
    return out


# ---------------------------------------------------------------- U-unit
ARITH = ["+", "-", "*", "&", "|", "^"]
CMP = ["==", "!=", "<", "<=", ">", ">="]
BUCK = [2, 4, 6, 8, 12, 16]


def _bucket(w):
    for b in BUCK:
        if w <= b:
            return b
    return 16


def u_unit(widths=(2, 3, 4), consts=(0, 1, 2, 3, 5, 6, 7, 10, 12, 15), big=False):
    out = []
    for wl, wr in itertools.product(widths, widths):
        for op in ARITH:
            nat = max(wl, wr) if op != "*" else _bucket(2 * max(wl, wr))
            rets = sorted({nat, min(nat + 2, 16) if nat < 8 else nat, max(2, nat - 1)})
            for rw in rets:
                if rw not in (2, 3, 4, 5, 6, 7, 8, 12, 16):
                    continue
                out.append(("unit-arith", _f(["a: Qint[%d]" % wl, "b: Qint[%d]" % wr], "Qint[%d]" % rw, "return a %s b" % op)))
        for op in CMP:
            out.append(("unit-cmp", _f(["a: Qint[%d]" % wl, "b: Qint[%d]" % wr], "bool", "return a %s b" % op)))
    for w in widths:
        for c in consts:
            if c >= 2 ** 16:
                continue
            for op in ARITH:
                nat = max(w, _bucket(max(1, c.bit_length()))) if op != "*" else _bucket(2 * max(w, _bucket(max(1, c.bit_length()))))
                out.append(("unit-const", _f(["a: Qint[%d]" % w], "Qint[%d]" % nat, "return a %s %d" % (op, c))))
                out.append(("unit-const", _f(["a: Qint[%d]" % w], "Qint[%d]" % nat, "return %d %s a" % (c, op))))
            for op in CMP:
                out.append(("unit-constcmp", _f(["a: Qint[%d]" % w], "bool", "return a %s %d" % (op, c))))
                out.append(("unit-constcmp", _f(["a: Qint[%d]" % w], "bool", "return %d %s a" % (c, op))))
        for k in range(0, w + 1):
            out.append(("unit-shift", _f(["a: Qint[%d]" % w], "Qint[%d]" % w, "return a << %d" % k)))
            out.append(("unit-shift", _f(["a: Qint[%d]" % w], "Qint[%d]" % w, "return a >> %d" % k)))
        out.append(("unit-not", _f(["a: Qint[%d]" % w], "Qint[%d]" % w, "return ~a")))
        for i in range(w):
            out.append(("unit-index", _f(["a: Qint[%d]" % w], "bool", "return a[%d]" % i)))
        for m in (1, 2, 4, 8, 3, 5, 6):
            out.append(("unit-mod", _f(["a: Qint[%d]" % w], "Qint[%d]" % w, "return a %% %d" % m)))
        for p in (0, 1, 2, 3):
            out.append(("unit-pow", _f(["a: Qint[%d]" % w], "Qint[%d]" % _bucket(min(16, w * max(1, p) * 2)), "return a ** %d" % p)))
    return out


# ---------------------------------------------------------------- U-ctl
def u_ctl():
    P = []

    def add(fam, args, ret, body):
        P.append((fam, _f(args, ret, body)))

    Q2, Q3, Q4 = "Qint[2]", "Qint[3]", "Qint[4]"
    add("ctl-ifexp", ["a: bool", "b: %s" % Q2, "c: %s" % Q2], Q2, "return b if a else c")
    add("ctl-ifexp", ["a: bool", "b: %s" % Q2, "c: %s" % Q4], Q4, "return b if a else c")
    add("ctl-ifexp", ["a: bool", "b: %s" % Q4, "c: %s" % Q2], Q4, "return b if a else c")
    add("ctl-ifexp", ["a: %s" % Q2, "b: %s" % Q2], Q2, "return a if a > b else b")
    add("ctl-ifexp", ["a: %s" % Q2, "b: %s" % Q2], Q2, "return (a + 1) if a == b else (b + 2)")
    add("ctl-ifexp", ["a: %s" % Q2, "b: bool"], Q4, "return (a + 1) if b else 7")
    add("ctl-if", ["a: bool", "b: %s" % Q2], Q2, ["c = b", "if a:", "    c = b + 1", "return c"])
    add("ctl-if", ["a: bool", "b: %s" % Q2], Q2, ["c = b", "if a:", "    c = b + 1", "else:", "    c = b + 2", "return c"])
    add("ctl-if", ["a: bool", "b: %s" % Q2], Q2, ["c = b", "if a:", "    c += 1", "else:", "    c += 2", "return c"])
    add("ctl-if", ["a: bool", "b: bool", "c: %s" % Q2], Q2, ["d = c", "if a:", "    if b:", "        d = c + 1", "    else:", "        d = c + 2", "return d"])
    add("ctl-if", ["a: bool", "b: bool", "c: %s" % Q2], Q2, ["d = c", "e = c", "if a:", "    d = c + 1", "    e = d + 1", "else:", "    e = c + 3", "return d + e"])
    add("ctl-if", ["a: %s" % Q2, "b: %s" % Q2], "bool", ["c = False", "if a > b:", "    c = True", "return c"])
    add("ctl-if", ["a: bool", "b: bool"], "bool", ["c = a", "if b:", "    c = not c", "return c"])
    add("ctl-if", ["a: bool", "b: bool", "c: bool"], "bool", ["d = a", "if b:", "    d = d ^ c", "if c:", "    d = not d", "return d"])
    # the tested variable is reassigned inside the branch it guards
    add("ctl-if", ["c: bool", "a: %s" % Q2], Q2, ["b = a", "if c:", "    c = False", "    b = a + 1", "return b"])
    add("ctl-if", ["c: bool", "a: %s" % Q2], Q2, ["b = a", "if c:", "    c = not c", "    b = a + 1", "else:", "    c = not c", "    b = a + 2", "return b"])
    add("ctl-if", ["c: bool", "d: bool"], "bool", ["e = d", "if c:", "    c = d", "    e = not d", "return e ^ c"])
    add("ctl-if", ["c: bool", "d: bool"], "bool", ["e = d", "if c:", "    e = not e", "else:", "    c = True", "    e = e and c", "return e"])
    add("ctl-if", ["a: %s" % Q2, "b: %s" % Q2], Q2, ["g = a > b", "r = b", "if g:", "    g = False", "    r = a", "return r"])
    add("ctl-multi", ["a: bool", "b: bool"], "Tuple[bool, bool]", ["x, y = a, b", "x, y = y, x", "return (x, y)"])
    add("ctl-multi", ["a: bool", "b: bool", "c: bool"], "bool", ["x, y, z = a, b, c", "x, y, z = y, z, x", "return x and not y and z"])
    add("ctl-multi", ["a: %s" % Q2, "b: %s" % Q2], Q2, ["x, y = a, b", "x, y = y, x + y", "return y ^ x"])
    add("ctl-multi", ["a: %s" % Q2, "b: %s" % Q2], Q2, ["x = a", "y = b", "for i in range(2):", "    x, y = y, x + y", "return x"])
    add("ctl-multi", ["a: bool", "b: bool"], "bool", ["a, b = b, a", "return a and not b"])
    # wide disjunctions that the optimizer profiles leave n-ary (nested under a binary operator)
    B6 = ["a: bool", "b: bool", "c: bool", "d: bool", "e: bool", "f: bool", "g: bool"]
    add("ctl-wideor", B6, "bool", "return g or not (a or b or c or d or e or f)")
    add("ctl-wideor", B6, "bool", "return g and (a or b or c or d or e)")
    add("ctl-wideor", B6, "bool", "return (g and (a or b or c or d or e or f)) or (e and not a)")
    add("ctl-wideor", B6, "bool", "return g ^ (a or b or c or d or e or f or (not g))")
    add("ctl-wideor", B6[:5], "bool", "return e or (d and (a or b or c or (not e)))")
    add("ctl-wideor", ["a: Qint[6]", "b: Qint[6]"], "Qint[6]", "return a if b != 0 else 1")
    add("ctl-wideor", ["a: Qint[5]", "g: bool"], "bool", "return (g and a != 0) or (not g and a == 0)")
    add("ctl-wideor", ["a: Qint[7]", "g: bool"], "bool", "return g or a != 0")
    # local variables whose names start like the return symbol
    add("ctl-retname", ["a: bool", "b: bool", "c: bool"], "bool", ["_retval = a and b", "return _retval != c"])
    add("ctl-retname", ["a: %s" % Q2, "b: %s" % Q2], Q2, ["_ret_tmp = a + b", "return _ret_tmp ^ a"])
    add("ctl-retname", ["a: bool", "b: bool"], "Tuple[bool, bool]", ["_return = a or b", "ret = a and b", "return (_return, ret)"])
    # aliases: two names for one value
    add("ctl-alias", ["a: bool", "b: bool", "c: bool"], "bool", ["last = a", "return (last ^ a) or (b and c)"])
    add("ctl-alias", ["a: %s" % Q2, "b: %s" % Q2], Q2, ["s = a", "s += a", "return s + b"])
    add("ctl-alias", ["a: bool", "b: bool"], "bool", ["x = a", "y = x", "return x ^ y ^ b"])
    add("ctl-alias", ["a: bool", "b: bool"], "bool", ["x = a", "y = a", "return (x and b) ^ (y and b) ^ a"])
    add("ctl-alias", ["a: %s" % Q2], Q2, ["b = a", "c = b", "return (a ^ b) + c"])
    add("ctl-alias", ["a: bool", "b: bool", "c: bool"], "bool", ["v = a and b", "x = v and c", "v = v ^ c", "y = v and c", "return x ^ y"])
    add("ctl-alias", ["a: bool", "b: bool", "c: bool"], "Tuple[bool, bool]", ["x = (a ^ b) and c", "y = a and c", "return (x ^ y, x)"])
    # tuple typed elements of nested containers held in a variable, returned, iterated
    add("ctl-subtuple", ["a: Qmatrix[bool, 2, 2]"], "bool", ["r = a[1]", "return r[0] and not r[1]"])
    add("ctl-subtuple", ["a: Qlist[Tuple[bool, Qint[2]], 2]"], Q2, ["t = a[1]", "return t[1] + 1"])
    add("ctl-subtuple", ["a: Tuple[Tuple[bool, bool], bool]"], "Tuple[bool, bool]", ["return a[0]"])
    add("ctl-subtuple", ["a: Tuple[Tuple[bool, Qint[2]], bool]"], "Tuple[bool, Qint[2]]", ["b = a[0]", "return b"])
    add("ctl-subtuple", ["a: Qmatrix[bool, 2, 2]"], "bool", ["c = False", "for x in a:", "    for y in x:", "        c = c ^ y", "return c"])
    add("ctl-subtuple", ["a: Qmatrix[Qint[2], 2, 2]"], Q2, ["c = 0", "for x in a:", "    for y in x:", "        c += y", "return c"])
    add("ctl-subtuple", ["a: Qmatrix[bool, 2, 2]", "i: bool"], "bool", ["r = a[1] if i else a[0]", "return r[0]"])
    # rows of non-square nested containers (their length is not the container's)
    add("ctl-nonsquare", ["a: Qmatrix[bool, 2, 3]"], "bool", ["return all(a[0])"])
    add("ctl-nonsquare", ["a: Qmatrix[bool, 3, 2]"], "bool", ["return all(a[2]) or any(a[0])"])
    add("ctl-nonsquare", ["a: Qmatrix[Qint[2], 2, 3]"], Q4, ["return sum(a[1])"])
    add("ctl-nonsquare", ["a: Qmatrix[bool, 2, 3]"], Q2, ["return len(a[0])"])
    add("ctl-nonsquare", ["a: Tuple[Tuple[bool, bool, bool], Tuple[bool, bool]]"], "bool", ["return any(a[0]) and all(a[1])"])
    add("ctl-nonsquare", ["a: Qmatrix[bool, 2, 3]"], "bool", ["c = False", "for x in a[1]:", "    c = c ^ x", "return c"])
    add("ctl-nonsquare", ["a: Qmatrix[bool, 2, 3]", "i: bool", "j: %s" % Q2], "bool", ["return a[i][j]"])
    add("ctl-nonsquare", ["a: Qmatrix[bool, 3, 2]", "i: %s" % Q2, "j: bool"], "bool", ["return a[i][j]"])
    add("ctl-nonsquare", ["a: Qmatrix[Qint[2], 2, 3]"], Q2, ["return max(a[0])"])
    add("ctl-nonsquare", ["a: Qlist[Qint[2], 2]", "x: %s" % Q2], Q4, ["b = a", "b = [x, x, x]", "return sum(b)"])
    add("ctl-nonsquare", ["a: Qlist[bool, 3]", "x: bool"], Q2, ["b = a", "b = [x, x]", "return len(b)"])
    add("ctl-constmul", ["a: bool"], Q4, ["return Qint4(2) * 3"])
    add("ctl-constmul", ["a: %s" % Q2], Q4, ["return Qint4(3) * Qint4(2) + a"])
    add("ctl-constmul", ["a: %s" % Q2], "Qint[6]", ["c = 6", "return (c * 5) + a"])
    # containers with more than ten elements (element names 1 / 10 / 11 share a prefix)
    add("ctl-wide", ["t: Qlist[Qint[2], 12]"], Q2, ["return t[1] + t[10]"])
    add("ctl-wide", ["t: Qlist[Qint[2], 12]"], Q2, ["x = t[1]", "return x ^ t[11]"])
    add("ctl-wide", ["t: Qlist[bool, 14]"], "bool", ["return (t[1] and t[13]) ^ t[10]"])
    add("ctl-wide", ["t: Qlist[Tuple[bool, Qint[2]], 11]"], Q2, ["u = t[1]", "return u[1] + t[10][1]"])
    # a name that held a constant is re-bound to a runtime value and then used as an index
    L4 = "L = [3, 2, 1, 0]"
    add("ctl-constidx", ["a: %s" % Q2], Q2, [L4, "i = 1", "return L[i]"])
    add("ctl-constidx", ["a: %s" % Q2], Q2, [L4, "i = 1", "i = a", "return L[i]"])
    add("ctl-constidx", ["a: %s" % Q2], Q2, [L4, "i = 0", "i += a", "return L[i]"])
    add("ctl-constidx", ["a: %s" % Q2, "c: bool"], Q2, [L4, "i = 0", "if c:", "    i = 1", "return L[i]"])
    add("ctl-constidx", ["x: Qlist[Qint[2], 4]", "a: %s" % Q2], Q2, ["s = 0", "for i in range(2):", "    s += x[i]", "i = a", "return s + x[i]"])
    add("ctl-constidx", ["a: %s" % Q2, "c: bool"], Q2, [L4, "i = 2", "j = i", "if c:", "    j = a", "return L[j] + L[i]"])
    add("ctl-constidx", ["x: Qlist[Qint[2], 3]", "c: bool"], Q2, ["i = 0", "r = x[i]", "i = 2 if c else 1", "return r + x[i]"])
    # user names that look like the library's own (constant qubits, ancillas, cse temporaries, if temporaries)
    B2 = "Tuple[bool, bool]"
    add("ctl-names", ["TRUE: bool", "b: bool"], B2, "return (True, TRUE and b)")
    add("ctl-names", ["FALSE: bool", "b: bool"], B2, "return (False, FALSE or b)")
    add("ctl-names", ["FALSE: bool"], B2, "return (False, FALSE)")
    add("ctl-names", ["TRUE: bool", "a: bool"], "bool", "return a or not a")
    add("ctl-names", ["FALSE: bool", "a: bool"], "bool", "return a and not a")
    add("ctl-names", ["a: bool", "b: bool"], B2, ["TRUE = a and b", "return (TRUE, True)"])
    add("ctl-names", ["a: bool", "b: bool"], B2, ["FALSE = a or b", "return (FALSE, False)"])
    add("ctl-names", ["a: bool", "b: bool"], "bool", ["FALSE = a and b", "return FALSE and not FALSE"])
    add("ctl-names", ["TRUE: %s" % Q2, "FALSE: %s" % Q2], Q2, "return (TRUE + 1) ^ FALSE")
    add("ctl-names", ["anc_0: bool", "b: bool", "c: bool"], "bool", "return (anc_0 and b) or (c and not anc_0)")
    add("ctl-names", ["a: bool", "b: bool", "anc_0: bool"], B2, "return ((a or b) and not anc_0, anc_0 and b)")
    add("ctl-names", ["anc_1: bool", "anc_2: %s" % Q2, "c: bool"], Q2, "return (anc_2 + 1) if (anc_1 or c) else (anc_2 ^ 3)")
    add("ctl-names", ["a: bool", "b: bool", "c: bool"], "bool", ["anc_0 = a or b", "anc_1 = anc_0 and c", "return (anc_1 or a) ^ anc_0"])
    add("ctl-names", ["x0: bool", "x1: bool", "x2: bool", "x3: bool"], "Tuple[bool, bool, bool]", ["k = x1 and x2", "return (k ^ x3, x0, k or x3)"])
    add("ctl-names", ["x0: %s" % Q2, "x1: %s" % Q2], "Tuple[%s, %s]" % (Q2, Q2), "return ((x0 + x1) ^ x1, (x0 + x1) & x0)")
    add("ctl-names", ["a: bool", "b: bool", "c: bool"], B2, ["x0 = a and b", "x1 = (x0 or c) ^ a", "return (x1 and (x0 or c), x0)"])
    add("ctl-names", ["_iftarg2: bool", "b: %s" % Q2], Q2, ["c = b", "if _iftarg2:", "    c = b + 1", "else:", "    c = b + 2", "return c"])
    add("ctl-names", ["_iftarg2: bool", "_iftarg3: bool"], "bool", ["c = _iftarg3", "if _iftarg2:", "    c = not c", "if c:", "    c = _iftarg2", "return c"])
    add("ctl-names", ["q0: bool", "q1: bool"], "bool", "return q0 and not q1")
    add("ctl-names", ["i: %s" % Q2, "x: %s" % Q2], Q4, ["c = 0", "for i in range(3):", "    c += x", "return c + i"])
    # a copy of a flag stays what it was when the flag is updated afterwards (xor / not / or updates)
    add("ctl-alias", ["a: bool", "b: bool", "c: bool"], "Tuple[bool, bool]", ["p = a and b", "q = p", "p = p ^ c", "return (p, q)"])
    add("ctl-alias", ["a: Qlist[bool, 4]"], "Tuple[bool, bool]", ["p = a[0] and a[1]", "q = p", "for i in range(2, 4):", "    p = p ^ a[i]", "return (p, q)"])
    add("ctl-alias", ["a: bool", "b: bool", "c: bool"], "Tuple[bool, bool]", ["p = a or b", "q = p", "p = not p", "r = q and c", "return (r, p)"])
    add("ctl-alias", ["a: bool", "b: bool", "c: bool"], "bool", ["p = a and b", "q = p", "p ^= c", "p ^= a", "return q and not p"])
    add("ctl-alias", ["a: %s" % Q2, "b: %s" % Q2], "Tuple[%s, %s]" % (Q2, Q2), ["p = a + b", "q = p", "p ^= b", "return (p, q)"])
    # a returned alias of an argument still needs its own output qubit
    add("ctl-alias", ["a: bool", "b: bool"], "bool", ["v = a", "return v"])
    add("ctl-alias", ["a: bool", "b: bool"], "bool", ["v = b", "w = v", "return w"])
    add("ctl-alias", ["a: %s" % Q2, "b: bool"], "bool", ["v = a", "return v[1]"])
    add("ctl-alias", ["a: %s" % Q2], Q2, ["v = a", "return v"])
    add("ctl-alias", ["a: bool", "b: bool"], "Tuple[bool, bool]", ["v = a", "w = a", "return (w, v)"])
    add("ctl-alias", ["a: bool", "b: bool"], "bool", ["v = a", "if b:", "    v = a", "return v"])
    # the loop variable is read after the loop
    add("ctl-for", ["a: %s" % Q4], Q4, ["i = 0", "for i in range(3):", "    a += i", "return a + i"])
    add("ctl-for", ["a: Qlist[%s, 3]" % Q2], Q2, ["x = a[0]", "c = 0", "for x in a:", "    c = c ^ x", "return c ^ x"])
    add("ctl-for", ["a: %s" % Q2, "b: bool"], Q4, ["i = 0", "c = 0", "if b:", "    for i in range(4):", "        c += a", "return c + i"])
    add("ctl-for", ["a: %s" % Q4], Q4, ["r = a", "for i in range(3):", "    r = r + (a << i)", "return r"])
    add("ctl-for", ["a: %s" % Q4, "b: %s" % Q4], Q4, ["r = b", "for i in range(3):", "    r = r ^ (a << i)", "return r"])
    add("ctl-for", ["a: %s" % Q4], Q4, ["r = a", "for i in range(3):", "    r = r - i", "return r"])
    add("ctl-for", ["a: %s" % Q2], Q4, ["c = 0", "for i in range(3):", "    c += a", "return c"])
    add("ctl-for", ["a: %s" % Q2], Q4, ["c = 0", "for i in range(4):", "    c = c + i", "return c + a"])
    add("ctl-for", ["a: %s" % Q4], "bool", ["c = False", "for i in range(4):", "    c = c ^ a[i]", "return c"])
    add("ctl-for", ["a: Tuple[bool, bool, bool]"], "bool", ["c = False", "for x in a:", "    c = c or x", "return c"])
    add("ctl-for", ["a: Qlist[%s, 3]" % Q2], Q4, ["c = 0", "for x in a:", "    c += x", "return c"])
    add("ctl-for", ["a: Qlist[bool, 4]"], Q4, ["c = 0", "for i in range(4):", "    c += 1 if a[i] else 0", "return c"])
    add("ctl-for", ["a: %s" % Q2], Q4, ["c = 0", "for i in [1, 2, 3]:", "    c += i", "return c + a"])
    add("ctl-for", ["a: %s" % Q2, "b: bool"], Q4, ["c = 0", "for i in range(3):", "    if b:", "        c += a", "return c"])
    add("ctl-for", ["a: %s" % Q2], Q4, ["c = 0", "for i in range(2):", "    for j in range(2):", "        c += a", "return c"])
    add("ctl-multi", ["a: bool", "b: bool"], "bool", ["c, d = a, b", "return c and not d"])
    add("ctl-multi", ["a: bool", "b: bool"], "bool", ["c, d = b, a", "return c and not d"])
    add("ctl-multi", ["a: %s" % Q2, "b: %s" % Q2], Q2, ["c, d = a + 1, b + 2", "return c ^ d"])
    add("ctl-multi", ["a: Tuple[bool, bool]"], "bool", ["c, d = a", "return c and not d"])
    add("ctl-multi", ["a: Tuple[%s, bool]" % Q2], Q2, ["c, d = a", "return c if d else 0"])
    # values rotated through three names (shift registers, Fibonacci-like loops)
    add("ctl-multi", ["a: bool", "b: bool", "c: bool"], "bool", ["t = a", "u = b", "v = c", "t = u", "u = v", "v = t and a", "return (t ^ v) or u"])
    add("ctl-multi", ["a: bool", "b: bool", "c: bool"], "Tuple[bool, bool, bool]", ["t, u, v = a, b, c", "for i in range(2):", "    t = u", "    u = v", "    v = t ^ u", "return (t, u, v)"])
    add("ctl-multi", ["a: %s" % Q2, "b: %s" % Q2], Q2, ["t = a", "u = b", "v = a ^ b", "for i in range(3):", "    t = u", "    u = v", "    v = t + u", "return t"])
    add("ctl-multi", ["a: %s" % Q2, "b: %s" % Q2], Q2, ["t = 0", "u = a", "v = b", "t = u", "u = v", "v = a + 1", "return t + u + v"])
    add("ctl-multi", ["a: bool", "b: bool", "c: bool"], "bool", ["t = a", "u = t", "t = b", "v = u", "u = c", "return (v and not t) or (u ^ v)"])
    add("ctl-multi", ["a: bool", "b: bool"], "Tuple[bool, bool]", ["t = a", "u = b", "w = t", "t = u", "u = w", "w = t and u", "return (w ^ t, u)"])
    # ... with computed (not merely copied) values in the registers
    add("ctl-multi", ["a: bool", "b: bool", "c: bool"], "bool", ["u = a and b", "v = b or c", "for i in range(2):", "    t = u", "    u = v", "    v = t ^ (a and c)", "return (t and u) ^ v"])
    add("ctl-multi", ["a: bool", "b: bool", "c: bool"], "bool", ["u = a and b", "v = b or c", "t = u", "u = v", "v = a ^ c", "return t ^ (u and v)"])
    add("ctl-multi", ["a: %s" % Q2, "b: %s" % Q2], Q2, ["u = a + 1", "v = a ^ b", "t = u", "u = v", "v = b + 1", "return (t + u) ^ v"])
    add("ctl-multi", ["a: bool", "b: bool", "c: bool"], "Tuple[bool, bool]", ["u = a or c", "v = not (a and b)", "t = u", "u = v", "w = t", "t = u", "v = w and c", "return (t ^ v, w or u)"])
    # unpacking into targets that include the unpacked tuple itself
    add("ctl-multi", ["t: Tuple[Tuple[bool, bool], bool]"], "bool", ["t, u = t", "return t[0] and u"])
    add("ctl-multi", ["t: Tuple[bool, Tuple[bool, bool]]"], "bool", ["u, t = t", "return (t[0] ^ u) and t[1]"])
    add("ctl-multi", ["t: Tuple[%s, Tuple[%s, bool]]" % (Q2, Q2)], Q2, ["u, t = t", "return (t[0] + u) if t[1] else u"])
    add("ctl-multi", ["t: Tuple[Tuple[bool, bool], Tuple[bool, bool]]"], "bool", ["t, u = t", "u, t = (t, u)", "return t[0] and not u[1]"])
    add("ctl-tuple", ["a: Tuple[bool, bool]"], "bool", "return a[0] and not a[1]")
    add("ctl-tuple", ["a: Tuple[%s, %s]" % (Q2, Q2)], Q2, "return a[0] + a[1]")
    add("ctl-tuple", ["a: Tuple[%s, %s]" % (Q2, Q4)], Q4, "return a[0] + a[1]")
    add("ctl-tuple", ["a: Tuple[%s, bool]" % Q2], "bool", "return a[0][1] and a[1]")
    add("ctl-tuple", ["a: Tuple[Tuple[bool, %s], bool]" % Q2], "bool", "return a[0][0] ^ a[1] ^ a[0][1][0]")
    add("ctl-tuple", ["a: Tuple[bool, bool]", "b: bool"], "Tuple[bool, bool]", "return (a[1] and b, a[0] or b)")
    add("ctl-tuple", ["a: %s" % Q2, "b: bool"], "Tuple[%s, bool]" % Q2, "return (a + 1, not b)")
    add("ctl-tuple", ["a: %s" % Q2, "b: bool"], "Tuple[bool, %s]" % Q2, "return (not b, a + 1)")
    add("ctl-tuple", ["a: Tuple[bool, bool]"], "Tuple[bool, bool]", ["b = a", "return b"])
    add("ctl-tuple", ["a: Tuple[%s, bool]" % Q2], "Tuple[%s, bool]" % Q2, ["b = a", "return b"])
    add("ctl-tuple", ["a: Tuple[bool, bool]"], "Tuple[bool, bool]", "return a")
    add("ctl-tuple", ["a: Tuple[bool, bool]", "b: Tuple[bool, bool]"], "bool", "return a == b")
    add("ctl-tuple", ["a: Tuple[bool, %s]" % Q2, "b: Tuple[bool, %s]" % Q2], "bool", "return a != b")
    add("ctl-list", ["a: Qlist[bool, 3]"], "bool", "return a[0] and a[1] and a[2]")
    add("ctl-list", ["a: Qlist[%s, 2]" % Q2], Q2, "return a[0] + a[1]")
    add("ctl-list", ["a: Qlist[%s, 3]" % Q2, "i: %s" % Q2], Q2, "return a[i]")
    add("ctl-list", ["i: %s" % Q2], Q4, ["c = [3, 5, 7, 1]", "return c[i]"])
    add("ctl-list", ["i: %s" % Q2], Q4, ["c = [3, 5, 7]", "return c[i]"])
    add("ctl-list", ["i: %s" % Q2, "a: %s" % Q2], Q4, ["c = [1, 2, 3, 4]", "return c[i] + a"])
    add("ctl-list", ["a: bool"], "Qlist[bool, 2]", "return [a, not a]")
    add("ctl-list", ["a: %s" % Q2], "Qlist[%s, 2]" % Q2, "return [a, a + 1]")
    add("ctl-matrix", ["a: Qmatrix[bool, 2, 2]"], "bool", "return a[0][1] and not a[1][0]")
    add("ctl-matrix", ["a: Qmatrix[%s, 2, 2]" % Q2], Q2, "return a[0][1] + a[1][0]")
    add("ctl-matrix", ["a: Qmatrix[bool, 2, 2]", "i: %s" % Q2, "j: %s" % Q2], "bool", "return a[i][j]")
    add("ctl-matrix", ["a: bool"], "Qmatrix[bool, 2, 2]", "return [[a, not a], [True, a]]")
    add("ctl-builtin", ["a: Tuple[bool, bool, bool]"], Q2, "return len(a)")
    add("ctl-builtin", ["a: %s" % Q2, "b: %s" % Q2], Q2, "return min(a, b)")
    add("ctl-builtin", ["a: %s" % Q2, "b: %s" % Q2], Q2, "return max(a, b)")
    add("ctl-builtin", ["a: %s" % Q2, "b: %s" % Q2, "c: %s" % Q2], Q2, "return min(a, b, c)")
    add("ctl-builtin", ["a: %s" % Q2, "b: %s" % Q2, "c: %s" % Q2], Q2, "return max(a, b, c)")
    add("ctl-builtin", ["a: Tuple[%s, %s, %s]" % (Q2, Q2, Q2)], Q2, "return max(a)")
    add("ctl-builtin", ["a: Qlist[%s, 3]" % Q2], Q2, "return min(a)")
    add("ctl-builtin", ["a: %s" % Q2], Q2, "return min(a, 2)")
    add("ctl-builtin", ["a: %s" % Q2], Q2, "return max(a, 1)")
    add("ctl-builtin", ["a: Tuple[%s, %s]" % (Q2, Q2)], Q4, "return sum(a)")
    add("ctl-builtin", ["a: Qlist[%s, 3]" % Q2], Q4, "return sum(a)")
    add("ctl-builtin", ["a: Tuple[bool, bool, bool]"], "bool", "return all(a)")
    add("ctl-builtin", ["a: Tuple[bool, bool, bool]"], "bool", "return any(a)")
    add("ctl-builtin", ["a: bool", "b: bool"], "bool", "return all([a, b])")
    add("ctl-builtin", ["a: bool", "b: bool"], "bool", "return any([a, not b])")
    add("ctl-builtin", ["a: %s" % Q2], Q2, "return int(a)")
    add("ctl-char", ["a: Qchar"], "bool", "return a == 'z'")
    add("ctl-char", ["a: Qchar"], "bool", "return a != 'A'")
    add("ctl-char", ["a: Qchar", "b: Qchar"], "bool", "return a == b")
    add("ctl-char", ["a: bool"], "Qchar", "return 'a' if a else 'b'")
    add("ctl-char", ["a: Qchar"], "Qint[8]", "return ord(a)")
    add("ctl-char", ["a: Qint[8]"], "Qchar", "return chr(a)")
    add("ctl-char", ["a: Qchar"], "Qchar", "return a")
    add("ctl-char", ["a: Qchar"], "bool", "return ord(a) == 3")
    add("ctl-char", ["a: Qchar"], "bool", "return ord(a) != 65")
    add("ctl-char", ["a: Qchar", "b: Qint[4]"], "bool", "return ord(a) == b")
    add("ctl-char", ["a: Qchar", "b: Qint[2]"], "bool", "return b != ord(a)")
    add("ctl-char", ["a: Qint[4]"], "bool", "return chr(a) == 'A'")
    add("ctl-mixed", ["a: %s" % Q2, "b: %s" % Q4], Q4, "return (a + b) - 1")
    add("ctl-mixed", ["a: %s" % Q2, "b: %s" % Q4], "bool", "return a + 1 > b")
    add("ctl-mixed", ["a: %s" % Q4, "b: %s" % Q2], "bool", "return a - b == 3")
    add("ctl-mixed", ["a: %s" % Q2, "b: %s" % Q2, "c: %s" % Q2], Q4, "return a * b + c")
    add("ctl-mixed", ["a: %s" % Q2, "b: %s" % Q2], Q4, "return (a << 1) + (b >> 1)")
    add("ctl-mixed", ["a: %s" % Q4], Q4, "return (a & 3) | (a >> 2)")
    add("ctl-mixed", ["a: %s" % Q3, "b: %s" % Q3], "bool", "return (a ^ b) == 5")
    add("ctl-mixed", ["a: %s" % Q2, "b: %s" % Q2], "bool", "return a < b and b != 3 or a == 0")
    add("ctl-mixed", ["a: %s" % Q2], Q4, "return a * a")
    add("ctl-mixed", ["a: %s" % Q2], Q4, "return a * 3 + 1")
    add("ctl-mixed", ["a: %s" % Q4], Q4, ["b = a", "b = b + 1", "b = b + b", "return b"])
    add("ctl-mixed", ["a: %s" % Q2], Q2, ["b = a + 1", "c = b + 1", "return c if c > b else b"])
    add("ctl-fixed", ["a: Qfixed[1,2]"], "bool", "return a == 0.5")
    add("ctl-fixed", ["a: Qfixed[1,2]", "b: Qfixed[1,2]"], "bool", "return a > b")
    add("ctl-fixed", ["a: Qfixed[2,2]", "b: Qfixed[2,2]"], "Qfixed[2,2]", "return a + b")
    add("ctl-fixed", ["a: Qfixed[1,3]"], "Qfixed[1,3]", "return a + 0.25")
    add("ctl-fixed", ["a: Qfixed[2,2]"], "Qint[2]", "return int(a)")
    add("ctl-fixed", ["a: Qfixed[2,2]", "b: Qfixed[2,2]"], "bool", "return a <= b")
    add("ctl-fixed", ["a: Qfixed[2,3]", "b: Qfixed[2,3]"], "Qfixed[2,3]", "return a - b")
    # constants whose own (smallest) format has a narrower integer part than the other operand
    add("ctl-fixed", ["a: Qfixed[2,4]"], "Qfixed[2,4]", "return a + 0.25")
    add("ctl-fixed", ["a: Qfixed[2,4]"], "bool", "return a > 1.5")
    add("ctl-fixed", ["a: Qfixed[2,4]"], "bool", "return a == 0.25")
    add("ctl-fixed", ["a: Qfixed[2,2]"], "bool", "return a != 0.5")
    add("ctl-fixed", ["a: Qfixed[3,3]"], "bool", "return a <= 2.5")
    add("ctl-fixed", ["a: Qfixed[2,3]"], "Qfixed[2,3]", "return a - 0.5")
    add("ctl-fixed", ["a: Qfixed[2,3]"], "Qfixed[2,3]", "return 1.5 - a")
    add("ctl-fixed", ["a: Qfixed[2,2]", "b: bool"], "Qfixed[2,2]", "return (a + 0.5) if b else 0.25")
    add("ctl-fixed", ["a: Qfixed[2,4]"], "bool", "return 0.75 < a")
    # values of different formats meet (binary points aligned), results widened on return
    add("ctl-fixed", ["a: Qfixed[1,2]"], "Qfixed[2,3]", "return a")
    add("ctl-fixed", ["a: Qfixed[1,2]", "b: Qfixed[2,3]"], "Qfixed[2,3]", "return a + b")
    add("ctl-fixed", ["a: Qfixed[2,2]", "b: Qfixed[1,3]"], "bool", "return a > b")
    add("ctl-fixed", ["a: Qfixed[2,2]", "b: Qfixed[1,4]"], "bool", "return a == b")
    add("ctl-fixed", ["a: Qfixed[1,2]", "b: Qfixed[2,4]"], "Qfixed[2,4]", "return b - a")
    add("ctl-fixed", ["a: Qfixed[1,3]"], "Qfixed[2,4]", "return a + 1.5")
    add("ctl-fixed", ["a: Qint[3]"], "Qfixed[3,3]", "return float(a) + 0.5")
    return P


# ---------------------------------------------------------------- U-reject
def u_reject():
    P = []

    def add(args, ret, body):
        P.append(("reject", _f(args, ret, body)))

    Q2 = "Qint[2]"
    add(["a: %s" % Q2], Q2, ["while a > 0:", "    a = a - 1", "return a"])
    add(["a: %s" % Q2, "b: %s" % Q2, "c: %s" % Q2], "bool", "return a < b < c")
    add(["a: %s" % Q2, "b: %s" % Q2, "c: %s" % Q2], "bool", "return a <= b <= c")
    add(["a: %s" % Q2], "bool", "return 0 < a < 3")
    add(["a: %s" % Q2, "b: %s" % Q2], "bool", "return a == b != 2")
    add(["a: bool", "b: bool", "c: bool"], "bool", "return a == b == c")
    add(["a: %s" % Q2, "b: %s" % Q2], Q2, "return a // b")
    add(["a: %s" % Q2], Q2, "return a // 2")
    add(["a: %s" % Q2, "b: %s" % Q2], Q2, "return a / b")
    add(["a: %s" % Q2, "b: %s" % Q2], Q2, "return a << b")
    add(["a: %s" % Q2, "b: %s" % Q2], Q2, "return a >> b")
    add(["a: %s" % Q2, "b: %s" % Q2], Q2, "return a % b")
    add(["a: %s" % Q2], Q2, "return a % 3")
    add(["a: %s" % Q2], Q2, "return a % 5")
    add(["a: %s" % Q2], Q2, "return a % 6")
    add(["a: Qint[4]"], "Qint[4]", "return a % 3")
    add(["a: Qint[4]"], "Qint[4]", "return a % 7")
    add(["a: Qint[4]"], "Qint[4]", "return a % 12")
    add(["a: bool", "b: %s" % Q2], Q2, ["if a:", "    return b", "return b + 1"])
    add(["a: %s" % Q2], Q2, "return zz + a")
    add(["a: Qfoo"], "bool", "return True")
    add(["a: %s" % Q2], Q2, "return foo(a)")
    add(["a: %s" % Q2], Q2, "return a ** a")
    add(["a: %s" % Q2], Q2, "return -a")
    add(["a: bool"], "bool", "return -a")
    add(["a: %s" % Q2], "bool", "return a")
    add(["a: bool"], Q2, "return a")
    add(["a: bool", "b: bool"], "bool", "return a + b")
    add(["a: %s" % Q2], "bool", "return not a")
    add(["a: %s" % Q2], "bool", "return a and a")
    add(["a: Tuple[bool, bool]"], "bool", "return a[2]")
    add(["a: %s" % Q2], "bool", "return a[2]")
    add(["a: %s" % Q2], "bool", "return a[5]")
    add(["a: Qint[4]"], "bool", "return a[-1]")
    add(["a: Tuple[bool, bool, bool]"], "bool", "return a[-1]")
    add(["a: Qlist[Qint[2], 3]"], Q2, "return a[-2]")
    add(["a: Qchar"], "bool", "return a == 3")
    add(["a: Tuple[bool, bool]"], "Tuple[bool, bool, bool]", "return a")
    add(["a: Tuple[bool, bool]", "b: Tuple[bool, bool, bool]"], "bool", "return a == b")
    add(["a: bool"], "bool", ["b = a", "b, c = a", "return b"])
    add(["a: %s" % Q2], Q2, ["for i in range(a):", "    a = a + 1", "return a"])
    add(["a: %s" % Q2], Q2, "return a if a else a")
    add(["a: %s" % Q2], Q2, "return a is a")
    add(["a: %s" % Q2], "bool", "return a in [1, 2]")
    add(["a: %s" % Q2], Q2, "return abs(a)")
    add(["a: %s" % Q2], Q2, "return {1: a}[1]")
    add(["a: %s" % Q2], Q2, "return (lambda x: x)(a)")
    add(["a: Qchar"], "Qchar", "return a + a")
    add(["a: Qchar"], "bool", "return a > 'a'")
    add(["a: %s" % Q2], Q2, "return a + 70000")
    add(["a: %s" % Q2], Q2, "return a * 1.5")
    add(["a: Qfixed[1,2]", "b: Qfixed[1,2]"], "Qfixed[1,2]", "return a * b")
    add(["a: %s" % Q2], Q2, ["b = a", "del b", "return a"])
    add(["a: %s" % Q2], Q2, ["assert a > 0", "return a"])
    add(["a: %s" % Q2], Q2, ["b: Qint[2] = a", "return b"])
    add(["a: %s" % Q2], Q2, ["pass", "return a"])
    add(["a: %s" % Q2], Q2, ["a += 1", "return a"])
    add(["a: Qfixed[2,2]", "b: Qfixed[2,2]"], "Qint[4]", "return a + b")
    add(["a: Qfixed[1,3]"], "Qint[4]", "return a")
    add(["a: Qint[4]"], "Qfixed[2,2]", "return a")
    add(["a: Qint[4]"], "Qfixed[1,3]", "return a + 1")
    add(["a: Qchar"], "Qint[8]", "return a")
    add(["a: Qint[8]"], "Qchar", "return a")
    add(["a: Qint[8]", "b: bool"], "Qchar", "return a if b else 65")
    add(["a"], Q2, "return a")
    P.append(("reject", "def prog(a: Qint[2]):\n    return a\n"))
    return P


# ---------------------------------------------------------------- U-repo
def u_repo_frozen():
    """The harvested test programs as frozen into /verif at build time (stable item ids even if
    the repository's tests are edited later)."""
    import json

    path = os.path.join(os.path.dirname(os.path.abspath(__file__)), "data", "repo_programs.json")
    # two harvested programs make sympy (inside qlasskit) run for minutes: excluded by text
    slow = ("a ** 3", "a**3")
    return [("repo:" + o["origin"].split(":", 1)[1] if o["origin"].startswith("repo:") else o["origin"], o["src"]) for o in json.load(open(path)) if not any(x in o["src"] for x in slow)]


def u_repo():
    """Every string constant in /repo/test/**/*.py that parses as one function definition with a
    return annotation (regenerated from the current tree)."""
    out = []
    seen = set()
    for path in sorted(glob.glob(os.path.join(REPO, "test", "**", "*.py"), recursive=True)):
        try:
            tree = ast.parse(open(path).read())
        except SyntaxError:
            continue
        for n in ast.walk(tree):
            if isinstance(n, ast.Constant) and isinstance(n.value, str) and "def " in n.value:
                src = textwrap.dedent(n.value).strip() + "\n"
                try:
                    t = ast.parse(src)
                except SyntaxError:
                    continue
                if len(t.body) != 1 or not isinstance(t.body[0], ast.FunctionDef) or t.body[0].returns is None:
                    continue
                if src in seen:
                    continue
                seen.add(src)
                out.append(("repo:%s:%d" % (os.path.relpath(path, REPO), n.lineno), src))
    return out


def size_ok(src, max_bits=24, max_nodes=80):
    """corpus membership rule by size (not wall-clock): total declared input bits and AST size."""
    try:
        t = ast.parse(src)
    except SyntaxError:
        return True
    f = t.body[0]
    nodes = sum(1 for _ in ast.walk(f))
    if nodes > max_nodes:
        return False
    bits = 0

    def w(a):
        if isinstance(a, ast.Name):
            if a.id == "bool":
                return 1
            if a.id.startswith("Qint") and a.id[4:].isdigit():
                return int(a.id[4:])
            if a.id == "Qchar":
                return 8
            return 4
        if isinstance(a, ast.Subscript) and isinstance(a.value, ast.Name):
            n = a.value.id
            sl = a.slice
            if n == "Qint" and isinstance(sl, ast.Constant):
                return sl.value
            if n == "Qfixed" and isinstance(sl, ast.Tuple):
                return sum(e.value for e in sl.elts)
            if n == "Tuple":
                return sum(w(e) for e in (sl.elts if isinstance(sl, ast.Tuple) else [sl]))
            if n == "Qlist":
                return w(sl.elts[0]) * sl.elts[1].value
            if n == "Qmatrix":
                return w(sl.elts[0]) * sl.elts[1].value * sl.elts[2].value
            if n == "Parameter":
                return 0
        return 4

    for a in f.args.args:
        if a.annotation is not None:
            try:
                bits += w(a.annotation)
            except Exception:
                bits += 4
    return bits <= max_bits


def u_unit_pairs(pairs):
    """binary operators on explicit (left width, right width) pairs, natural return type"""
    out = []
    for wl, wr in pairs:
        for op in ARITH:
            nat = max(wl, wr) if op != "*" else _bucket(2 * max(wl, wr))
            out.append(("unit-arith", _f(["a: Qint[%d]" % wl, "b: Qint[%d]" % wr], "Qint[%d]" % nat, "return a %s b" % op)))
        for op in CMP:
            out.append(("unit-cmp", _f(["a: Qint[%d]" % wl, "b: Qint[%d]" % wr], "bool", "return a %s b" % op)))
    return out


# ---------------------------------------------------------------- U-prog: typed random programs
class _PG:
    """deterministic generator of well-typed multi-statement programs over bool / Qint[w] /
    tuples, using every statement kind of the documented subset"""

    def __init__(self, rnd):
        self.r = rnd

    def int_expr(self, env, d, maxw=4):
        r = self.r
        ints = [v for v, t in env.items() if t[0] == "int" and t[1] <= maxw]
        if d == 0 or r.random() < 0.25:
            c = r.random()
            if ints and c < 0.75:
                return r.choice(ints)
            return str(r.choice([0, 1, 2, 3, 5, 6, 7]))
        k = r.choice(["+", "+", "-", "^", "&", "|", "<<", ">>", "ite", "*c", "idx"])
        if k == "ite":
            return "(%s if %s else %s)" % (self.int_expr(env, d - 1, maxw), self.bool_expr(env, d - 1), self.int_expr(env, d - 1, maxw))
        if k in ("<<", ">>"):
            return "(%s %s %d)" % (self.int_expr(env, d - 1, maxw), k, r.choice([0, 1, 1, 2]))
        if k == "*c":
            return "(%s * %d)" % (self.int_expr(env, d - 1, 2), r.choice([2, 3, 6]))
        if k == "idx":
            tups = [v for v, t in env.items() if t[0] == "tupi"]
            if tups:
                v = r.choice(tups)
                return "%s[%d]" % (v, r.randrange(env[v][1]))
            return self.int_expr(env, d - 1, maxw)
        return "(%s %s %s)" % (self.int_expr(env, d - 1, maxw), k, self.int_expr(env, d - 1, maxw))

    def bool_expr(self, env, d):
        r = self.r
        bools = [v for v, t in env.items() if t[0] == "bool"]
        ints = [v for v, t in env.items() if t[0] == "int"]
        if d == 0 or r.random() < 0.2:
            c = r.random()
            if bools and c < 0.6:
                return r.choice(bools)
            if ints:
                v = r.choice(ints)
                return "%s[%d]" % (v, r.randrange(env[v][1]))
            return r.choice(["True", "False"])
        k = r.choice(["and", "or", "not", "^", "cmp", "cmp", "==", "ite"])
        if k == "not":
            return "(not %s)" % self.bool_expr(env, d - 1)
        if k == "ite":
            return "(%s if %s else %s)" % (self.bool_expr(env, d - 1), self.bool_expr(env, d - 1), self.bool_expr(env, d - 1))
        if k == "cmp":
            return "(%s %s %s)" % (self.int_expr(env, d - 1), r.choice(["<", "<=", ">", ">=", "==", "!="]), self.int_expr(env, d - 1))
        if k == "==":
            return "(%s %s %s)" % (self.bool_expr(env, d - 1), r.choice(["==", "!="]), self.bool_expr(env, d - 1))
        return "(%s %s %s)" % (self.bool_expr(env, d - 1), k, self.bool_expr(env, d - 1))

    def stmt(self, env, depth, ind):
        r = self.r
        k = r.choice(["assign", "assign", "aug", "if", "for", "swap", "alias"]) if depth < 2 else r.choice(["assign", "aug"])
        pad = "    " * ind
        ints = [v for v, t in env.items() if t[0] == "int" and not v.startswith("i")]
        bools = [v for v, t in env.items() if t[0] == "bool"]
        loc = [v for v in ints + bools if env[v][-1] == "local"]
        if k == "assign":
            if r.random() < 0.5 or not loc:
                nm = "v%d" % len(env)
                if r.random() < 0.6:
                    env[nm] = ("int", 4, "local")
                    return [pad + "%s = %s" % (nm, self.int_expr(env_without(env, nm), 2))]
                env[nm] = ("bool", "local")
                return [pad + "%s = %s" % (nm, self.bool_expr(env_without(env, nm), 2))]
            v = r.choice(loc)
            e = self.int_expr(env, 2) if env[v][0] == "int" else self.bool_expr(env, 2)
            return [pad + "%s = %s" % (v, e)]
        if k == "aug" and [v for v in loc if env[v][0] == "int"]:
            v = r.choice([v for v in loc if env[v][0] == "int"])
            return [pad + "%s %s= %s" % (v, r.choice(["+", "+", "-", "^", "|", "&"]), self.int_expr(env, 1))]
        if k == "if" and loc:
            body = []
            for _ in range(r.randint(1, 2)):
                v = r.choice(loc)
                e = self.int_expr(env, 1) if env[v][0] == "int" else self.bool_expr(env, 1)
                body.append(pad + "    %s = %s" % (v, e))
            out = [pad + "if %s:" % self.bool_expr(env, 1)] + body
            if r.random() < 0.5:
                v = r.choice(loc)
                e = self.int_expr(env, 1) if env[v][0] == "int" else self.bool_expr(env, 1)
                out += [pad + "else:", pad + "    %s = %s" % (v, e)]
            return out
        if k == "for" and [v for v in loc if env[v][0] == "int"]:
            v = r.choice([v for v in loc if env[v][0] == "int"])
            iv = "i%d" % depth
            env2 = dict(env)
            env2[iv] = ("int", 2, "loop")
            body = [pad + "    %s %s= %s" % (v, r.choice(["+", "^", "-"]), self.int_expr(env2, 1))]
            env[iv] = ("int", 2, "loop")
            return [pad + "for %s in range(%d):" % (iv, r.choice([2, 3]))] + body
        if k == "swap":
            same = [v for v in loc if env[v][0] == "int"]
            if len(same) >= 2:
                a, b = r.sample(same, 2)
                return [pad + "%s, %s = %s, %s" % (a, b, b, self.int_expr(env, 1))]
        if k == "alias" and ints:
            nm = "w%d" % len(env)
            src = r.choice(ints)
            env[nm] = ("int", env[src][1], "local")
            return [pad + "%s = %s" % (nm, src)]
        nm = "v%d" % len(env)
        env[nm] = ("int", 4, "local")
        return [pad + "%s = %s" % (nm, self.int_expr(env_without(env, nm), 1))]


def env_without(env, nm):
    return {k: v for k, v in env.items() if k != nm}


def u_stale(full=False):
    """a compound over a local variable sits inside a wide operator, the variable is re-assigned and
    the same compound is used again (cached sub-expressions must not survive the re-binding)"""
    inits = ["a and c", "a ^ c", "a or not c"]
    comps = ["(b and t)", "(b or t)", "(b ^ t)", "(not t)"]
    conts = [
        "e or not (%s or (c and d) or a)",
        "%s or (c and d) or a",
        "(c and d) or %s or a",
        "a or (c and d) or (d and e) or %s",
        "%s and (c or d) and e",
        "%s ^ (c and d) ^ a",
        "e and not %s",
        "(c and d and %s) or (a and not e)",
    ]
    reas = ["a ^ d", "not t", "d and e"]
    uses = ["%s ^ c", "%s and e", "(%s or a) ^ (%s and d)"]
    out = []
    k = 0
    for i0 in inits:
        for cp in comps:
            for ct in conts:
                for r in reas:
                    for u in uses:
                        k += 1
                        if not full and k % 8 != 1:
                            continue
                        body = ["t = %s" % i0, "u = %s" % (ct % cp), "t = %s" % r, "v = %s" % (u.replace("%s", cp)), "return (u, v)"]
                        out.append(("ctl-stale", _f(["a: bool", "b: bool", "c: bool", "d: bool", "e: bool"], "Tuple[bool, bool]", body)))
    return out


def u_selfif(full=False):
    """a variable is re-assigned from itself under an if (with or without else), with compound
    operands, and more scratch work follows: temporaries outlive the ancillas they were computed
    from and released ancillas are handed out again while their past is still needed"""
    inits = ["b", "a and b", "a ^ c"]
    conds = ["d", "d and a", "not e"]
    ops = ["^", "and", "or"]
    comps = ["(e or b or d)", "((a and c) or e)", "(not (b ^ e))", "((a or b) and (c or e))"]
    elses = [None, ("^", "(c or (a and e))"), ("and", "(b or not d)")]
    rets = [("bool", "(b or c) and e"), ("bool", "t"), ("bool", "t ^ (b or c)"), ("Tuple[bool, bool]", "(t, (b or c) and e)")]
    out = []
    k = 0
    for i0 in inits:
        for cd in conds:
            for op in ops:
                for cp in comps:
                    for el in elses:
                        for rt, rexp in rets:
                            k += 1
                            if not full and k % 12 != 5:
                                continue
                            body = ["t = %s" % i0, "if %s:" % cd, "    t = t %s %s" % (op, cp)]
                            if el:
                                body += ["else:", "    t = t %s %s" % el]
                            body.append("return %s" % rexp)
                            out.append(("ctl-selfif", _f(["a: bool", "b: bool", "c: bool", "d: bool", "e: bool"], rt, body)))
    return out


def u_prog_random(n=300, seed=20260923):
    rnd = random.Random(seed)
    out = []
    for i in range(n):
        g = _PG(rnd)
        env = {}
        args = []
        for k in range(rnd.randint(1, 3)):
            nm = "abc"[k]
            t = rnd.choice(["bool", "int2", "int2", "int3", "int4", "tup"])
            if t == "bool":
                env[nm] = ("bool", "arg")
                args.append("%s: bool" % nm)
            elif t == "tup":
                env[nm] = ("tupi", 2, "arg")
                args.append("%s: Tuple[Qint[2], Qint[2]]" % nm)
            else:
                w = int(t[3:])
                env[nm] = ("int", w, "arg")
                args.append("%s: Qint[%d]" % (nm, w))
        body = []
        first = "v0"
        env[first] = ("int", 4, "local")
        body.append("    %s = %s" % (first, g.int_expr(env_without(env, first), 1)))
        for _ in range(rnd.randint(1, 4)):
            body += g.stmt(env, 1, 1)
        if rnd.random() < 0.35:
            ret, e = "bool", g.bool_expr(env, 2)
        else:
            ret, e = "Qint[%d]" % rnd.choice([2, 4, 4, 6]), g.int_expr(env, 2)
        body.append("    return %s" % e)
        out.append(("prog-rand", "def prog(%s) -> %s:\n%s\n" % (", ".join(args), ret, "\n".join(body))))
    return out
