"""Second typed random program family (`prog2`): a deterministic generator that exercises the whole
documented subset in combination - nested tuple / Qlist / Qmatrix arguments, constant and variable
indices, constant lookup tables, builtins (min max sum len all any), tuple typed locals and
unpacking, multi-target assignment, nested if/else, for over ranges and containers, Qchar tests,
tuple / list returns.  Fixed internal seeds: the universe does not depend on VERIF_SEED.

Programs are generated well-typed on a best effort basis; members the library refuses are simply
counted as rejected by the checks (never a violation).
"""
import random

BUCK = [2, 4, 6, 8, 12, 16]


def bucket(w):
    for b in BUCK:
        if w <= b:
            return b
    return 16


B = ("bool",)
C = ("char",)


def I(w):
    return ("int", w)


def ann(t):
    if t[0] == "bool":
        return "bool"
    if t[0] == "char":
        return "Qchar"
    if t[0] == "int":
        return "Qint[%d]" % t[1]
    if t[0] == "list":
        return "Qlist[%s, %d]" % (ann(t[1]), t[2])
    if t[0] == "matrix":
        return "Qmatrix[%s, %d, %d]" % (ann(t[1]), t[2], t[3])
    return "Tuple[%s]" % ", ".join(ann(e) for e in t[1])


def elems(t):
    """element types of a container type"""
    if t[0] == "list":
        return [t[1]] * t[2]
    if t[0] == "matrix":
        return [("list", t[1], t[3])] * t[2]
    if t[0] == "tup":
        return list(t[1])
    return None


_KW = {"if", "else", "and", "or", "not", "True", "False", "min", "max", "sum", "len", "all", "any"}


def _has_var(e):
    import re

    return any(w not in _KW for w in re.findall(r"[A-Za-z_]\w*", e))


def bits(t):
    if t[0] == "bool":
        return 1
    if t[0] == "char":
        return 8
    if t[0] == "int":
        return t[1]
    return sum(bits(e) for e in elems(t))


class Gen:
    def __init__(self, rnd, maxw=4):
        self.r = rnd
        self.env = {}
        self.maxw = maxw
        self.n = 0
        self.pre = []  # statements that must precede (constant tables)
        self.funs = []  # (name, [formal types], return type) of callable compiled functions
        self.products_in_loops = False

    # ------------------------------------------------------------ leaves
    def paths(self, want):
        """all (source, type) constant-index paths into container variables whose leaf has kind `want`"""
        out = []

        def walk(src, t):
            if t[0] == want:
                out.append((src, t))
            es = elems(t)
            if es:
                for i, e in enumerate(es):
                    walk("%s[%d]" % (src, i), e)

        for v, d in self.env.items():
            walk(v, d["t"])
        return out

    def containers(self, elem_kind=None, uniform=False):
        out = []

        def walk(src, t):
            es = elems(t)
            if es:
                if (not uniform or all(e == es[0] for e in es)) and (elem_kind is None or es[0][0] == elem_kind):
                    out.append((src, t, es))
                if src.count("[") < 1:
                    for i, e in enumerate(es):
                        walk("%s[%d]" % (src, i), e)

        for v, d in self.env.items():
            walk(v, d["t"])
        return out

    def int_leaf(self, maxw):
        r = self.r
        cands = [(s, t) for s, t in self.paths("int") if t[1] <= maxw]
        if cands and r.random() < 0.8:
            s, t = r.choice(cands)
            return s, t[1]
        c = r.choice([0, 1, 1, 2, 3, 3, 5, 6, 7, 9, 12, 15][: 8 if maxw <= 3 else 12])
        return str(c), bucket(max(1, c.bit_length()))

    def bool_leaf(self):
        r = self.r
        c = r.random()
        bs = self.paths("bool")
        if bs and c < 0.6:
            return r.choice(bs)[0]
        ints = [(s, t) for s, t in self.paths("int") if not self.env.get(s.split("[")[0], {}).get("const")]
        if ints and c < 0.85:
            s, t = r.choice(ints)
            return "%s[%d]" % (s, r.randrange(t[1]))
        chars = self.paths("char")
        if chars and c < 0.93:
            return "(%s %s '%s')" % (r.choice(chars)[0], r.choice(["==", "!="]), r.choice("aAz0 "))
        if bs:
            return r.choice(bs)[0]
        return r.choice(["True", "False"])

    # ------------------------------------------------------------ expressions
    def int_expr(self, d, maxw=None):
        """returns (source, library width or None)"""
        r = self.r
        maxw = maxw or self.maxw
        if d <= 0 or r.random() < 0.2:
            return self.int_leaf(maxw)
        kinds = ["+", "+", "-", "^", "&", "|", "<<", ">>", "ite", "*c", "*v", "minmax", "sum", "len", "vidx", "tab", "~", "int"]
        if self.funs:
            kinds = kinds + ["call"] * 6
        k = r.choice(kinds)
        if k == "call":
            fs = [f for f in self.funs if f[2][0] == "int" and f[2][1] <= maxw]
            if fs:
                f = r.choice(fs)
                return self.call(f, d), f[2][1]
            return self.int_expr(d - 1, maxw)
        if k in ("+", "-", "^", "&", "|"):
            a, wa = self.int_expr(d - 1, maxw)
            b, wb = self.int_expr(d - 1, maxw)
            return "(%s %s %s)" % (a, k, b), (max(wa, wb) if wa and wb else None)
        if k in ("<<", ">>"):
            a, wa = self.int_expr(d - 1, maxw)
            return "(%s %s %d)" % (a, k, r.choice([0, 1, 1, 2, 3])), wa
        if k == "~":
            a, wa = self.int_leaf(maxw)
            if a.isdigit():
                return a, wa
            return "(~%s)" % a, wa
        if k == "ite":
            a, wa = self.int_expr(d - 1, maxw)
            b, wb = self.int_expr(d - 1, maxw)
            return "(%s if %s else %s)" % (a, self.bool_expr(d - 1), b), (max(wa, wb) if wa and wb else None)
        if k == "*c":
            a, wa = self.int_expr(d - 1, min(maxw, 3))
            c = r.choice([2, 3, 5, 6, 7])
            return "(%s * %d)" % (a, c), None
        if k == "*v":
            a, wa = self.int_leaf(2)
            b, wb = self.int_leaf(2)
            return "(%s * %s)" % (a, b), None
        if k == "minmax":
            n = r.choice([2, 2, 3])
            xs = [self.int_expr(d - 1, maxw) for _ in range(n)]
            ws = [w for _, w in xs]
            cs = self.containers("int", uniform=True)
            if cs and r.random() < 0.3:
                s, t, es = r.choice(cs)
                return "%s(%s)" % (r.choice(["min", "max"]), s), es[0][1]
            return "%s(%s)" % (r.choice(["min", "max"]), ", ".join(s for s, _ in xs)), (max(ws) if all(ws) else None)
        if k == "sum":
            cs = self.containers("int", uniform=True)
            if cs:
                s, t, es = r.choice(cs)
                return "sum(%s)" % s, None
            return self.int_expr(d - 1, maxw)
        if k == "len":
            cs = self.containers()
            if cs:
                s, t, es = r.choice(cs)
                return "len(%s)" % s, bucket(max(1, len(es).bit_length()))
            return self.int_expr(d - 1, maxw)
        if k == "vidx":
            cs = [c for c in self.containers("int", uniform=True) if "[" not in c[0] and len(c[2]) >= 2 and c[2][0][1] <= maxw]
            if cs:
                s, t, es = r.choice(cs)
                iw = 1 if len(es) == 2 else 2
                idx = self.index_expr(len(es))
                if idx:
                    return "%s[%s]" % (s, idx), es[0][1]
            return self.int_expr(d - 1, maxw)
        if k == "tab":
            n = r.choice([2, 3, 4, 4])
            idx = self.index_expr(n)
            if idx:
                vals = [r.choice([0, 1, 2, 3, 5, 7]) for _ in range(n)]
                nm = "L%d" % self.n
                self.n += 1
                self.pre.append("%s = [%s]" % (nm, ", ".join(map(str, vals))))
                return "%s[%s]" % (nm, idx), None
            return self.int_expr(d - 1, maxw)
        if k == "int":
            a, wa = self.int_leaf(maxw)
            return a, wa
        return self.int_leaf(maxw)

    def actual(self, t, d):
        r = self.r
        if t == B:
            return self.bool_expr(min(d - 1, 1))
        if t[0] == "int":
            cands = [(s_, t_) for s_, t_ in self.paths("int") if t_[1] <= t[1]]
            c = r.random()
            if cands and c < 0.6:
                return r.choice(cands)[0]
            if cands and c < 0.85:
                a, b = r.choice(cands)[0], r.choice(cands)[0]
                return "(%s %s %s)" % (a, r.choice(["+", "^", "&", "|", "-"]), b)
            return str(r.randrange(2 ** min(t[1], 3)))
        vs = [v for v, dd in self.env.items() if dd["t"] == t or (elems(dd["t"]) and elems(t) and elems(dd["t"]) == elems(t))]
        if vs and r.random() < 0.6:
            return r.choice(vs)
        return "(%s)" % ", ".join(self.actual(e, d) for e in elems(t))

    def call(self, f, d):
        return "%s(%s)" % (f[0], ", ".join(self.actual(t, d) for t in f[1]))

    def index_expr(self, n):
        """an integer expression usable as a run-time index into a container of n elements"""
        r = self.r
        need = 1 if n <= 2 else 2
        ints = [(s, t) for s, t in self.paths("int") if "[" not in s and (t[1] == need or (t[1] == 2 and need == 1))]
        bs = self.paths("bool")
        c = r.random()
        if ints and c < 0.7:
            return r.choice(ints)[0]
        if bs and n == 2 and c < 0.9:
            return None
        if ints:
            return r.choice(ints)[0]
        return None

    def bool_expr(self, d):
        r = self.r
        if d <= 0 or r.random() < 0.2:
            return self.bool_leaf()
        kinds = ["and", "or", "not", "^", "cmp", "cmp", "eq", "ite", "and3", "or3", "allany", "tupeq", "vidx"]
        if self.funs:
            kinds = kinds + ["call"] * 5
        k = r.choice(kinds)
        if k == "call":
            fs = [f for f in self.funs if f[2] == B]
            if fs:
                return self.call(r.choice(fs), d)
            return self.bool_expr(d - 1)
        if k == "not":
            return "(not %s)" % self.bool_expr(d - 1)
        if k == "ite":
            return "(%s if %s else %s)" % (self.bool_expr(d - 1), self.bool_expr(d - 1), self.bool_expr(d - 1))
        if k == "cmp":
            a, _ = self.int_expr(d - 1)
            b, _ = self.int_expr(d - 1)
            return "(%s %s %s)" % (a, r.choice(["<", "<=", ">", ">=", "==", "!="]), b)
        if k == "eq":
            return "(%s %s %s)" % (self.bool_expr(d - 1), r.choice(["==", "!="]), self.bool_expr(d - 1))
        if k in ("and3", "or3"):
            op = " %s " % k[:-1]
            return "(%s)" % op.join(self.bool_expr(d - 1) for _ in range(r.choice([3, 3, 4])))
        if k == "allany":
            cs = self.containers("bool", uniform=True)
            if cs and r.random() < 0.6:
                s, t, es = r.choice(cs)
                return "%s(%s)" % (r.choice(["all", "any"]), s)
            return "%s([%s])" % (r.choice(["all", "any"]), ", ".join(self.bool_expr(d - 1) for _ in range(r.choice([2, 3]))))
        if k == "tupeq":
            vs = [(v, dd["t"]) for v, dd in self.env.items() if elems(dd["t"]) and all(e[0] in ("bool", "int", "char") for e in elems(dd["t"]))]
            for v1, t1 in vs:
                for v2, t2 in vs:
                    if v1 < v2 and t1 == t2:
                        return "(%s %s %s)" % (v1, r.choice(["==", "!="]), v2)
            return self.bool_expr(d - 1)
        if k == "vidx":
            cs = [c for c in self.containers("bool", uniform=True) if "[" not in c[0] and len(c[2]) >= 2]
            ms = [(v, dd["t"]) for v, dd in self.env.items() if dd["t"][0] == "matrix" and dd["t"][1] == B]
            if ms and r.random() < 0.4:
                v, t = r.choice(ms)
                i, j = self.index_expr(t[2]), self.index_expr(t[3])
                if i and j:
                    return "%s[%s][%s]" % (v, i, j)
            if cs:
                s, t, es = r.choice(cs)
                idx = self.index_expr(len(es))
                if idx:
                    return "%s[%s]" % (s, idx)
            return self.bool_expr(d - 1)
        return "(%s %s %s)" % (self.bool_expr(d - 1), k, self.bool_expr(d - 1))

    # ------------------------------------------------------------ statements
    def fresh(self, p="v"):
        self.n += 1
        return "%s%d" % (p, self.n)

    def locals_(self, kind):
        return [v for v, d in self.env.items() if d["loc"] and d["t"][0] == kind]

    def flush(self, pad, lines):
        return lines

    def assign_to(self, v, pad, d=2):
        t = self.env[v]["t"]
        if t[0] == "int":
            e, w = self.int_expr(d)
        else:
            e = self.bool_expr(d)
        return [pad + "%s = %s" % (v, e)]

    def stmt(self, depth, ind, in_branch=False):
        r = self.r
        pad = "    " * ind
        li, lb = self.locals_("int"), self.locals_("bool")
        loc = li + lb
        kinds = ["new", "new", "re", "aug", "if", "if", "for", "forc", "swap", "alias", "tup", "unpack"]
        if in_branch == "then":
            # documented: branch bodies contain assignments only (a nested if in the then-branch is refused)
            kinds = ["re", "re", "aug"]
        elif in_branch:
            kinds = ["re", "re", "aug", "if"] if depth < 2 else ["re", "aug"]
        if not in_branch and [f for f in self.funs if f[2][0] == "tup"]:
            kinds = kinds + ["calltup"] * 3
        k = r.choice(kinds)
        if k == "calltup":
            f = r.choice([f for f in self.funs if f[2][0] == "tup"])
            nm = self.fresh("t")
            out = [pad + "%s = %s" % (nm, self.call(f, 2))]
            self.env[nm] = {"t": f[2], "loc": False}
            return out
        if k == "re" and loc:
            return self.flush(pad, self.assign_to(r.choice(loc), pad))
        if k == "aug" and li:
            e, _ = self.int_expr(1)
            return self.flush(pad, [pad + "%s %s= %s" % (r.choice(li), r.choice(["+", "+", "-", "^", "|", "&"]), e)])
        if k == "if" and loc and depth < 3:
            cond = self.bool_expr(1 if depth else 2)
            head = self.flush(pad, [pad + "if %s:" % cond])
            body = []
            for _ in range(r.randint(1, 2)):
                body += self.stmt(depth + 1, ind + 1, "then")
            out = head + body
            if r.random() < 0.5:
                out.append(pad + "else:")
                for _ in range(r.randint(1, 2)):
                    out += self.stmt(depth + 1, ind + 1, "else")
            return out
        if k == "for" and loc and depth < 2:
            iv = "i%d" % depth
            n = r.choice([2, 3, 4])
            v = r.choice(loc)
            cs = [c for c in self.containers(self.env[v]["t"][0], uniform=True) if len(c[2]) >= n]
            saved = dict(self.env)
            self.env[iv] = {"t": I(2), "loc": False, "const": True}
            if cs and r.random() < 0.6:
                s, t, es = r.choice(cs)
                rhs = "%s[%s]" % (s, iv)
            elif self.env[v]["t"][0] == "int":
                rhs, _ = self.int_expr(1)
            else:
                rhs = self.bool_expr(1)
            if self.env[v]["t"][0] == "int":
                line = "%s %s= %s" % (v, r.choice(["+", "^", "-", "|"]), rhs)
            else:
                line = "%s = %s %s %s" % (v, v, r.choice(["and", "or", "^"]), rhs)
            self.env = saved
            if not in_branch:
                self.env[iv] = {"t": I(2), "loc": False, "const": True}
            return self.flush(pad, [pad + "for %s in range(%d):" % (iv, n), pad + "    " + line])
        if k == "forc" and loc and depth < 2:
            v = r.choice(loc)
            cs = self.containers(self.env[v]["t"][0], uniform=True)
            if cs:
                s, t, es = r.choice(cs)
                xv = "x%d" % depth
                if self.env[v]["t"][0] == "int":
                    rhs = xv
                    if self.products_in_loops and r.random() < 0.5:
                        # the element takes part in a product / sum (elements of a bound table are constants)
                        a, _ = self.int_leaf(2)
                        b, _ = self.int_leaf(2)
                        rhs = r.choice(["(%s * %s)" % (a, xv), "((%s * %s) + %s)" % (a, xv, b), "((%s * %s) + %s)" % (xv, a, b), "(%s + %s)" % (xv, a)])
                    line = "%s %s= %s" % (v, r.choice(["+", "^", "|"]), rhs)
                else:
                    line = "%s = %s %s %s" % (v, v, r.choice(["and", "or", "^"]), r.choice([xv, "(not %s)" % xv]))
                if not in_branch:
                    self.env[xv] = {"t": es[0], "loc": False}
                return [pad + "for %s in %s:" % (xv, s), pad + "    " + line]
        if k == "swap":
            same = li if len(li) >= 2 else (lb if len(lb) >= 2 else [])
            if len(same) >= 2:
                a, b = r.sample(same, 2)
                if r.random() < 0.5:
                    return [pad + "%s, %s = %s, %s" % (a, b, b, a)]
                e = self.int_expr(1)[0] if self.env[a]["t"][0] == "int" else self.bool_expr(1)
                return self.flush(pad, [pad + "%s, %s = %s, %s" % (a, b, b, e)])
        if k == "alias":
            srcs = [(s, t) for s, t in self.paths("int") + self.paths("bool") if "[" not in s]
            if srcs:
                s, t = r.choice(srcs)
                nm = self.fresh("w")
                self.env[nm] = {"t": t, "loc": True}
                return [pad + "%s = %s" % (nm, s)]
        if k == "tup":
            nm = self.fresh("t")
            n = r.choice([2, 2, 3])
            parts, ts = [], []
            for _ in range(n):
                if r.random() < 0.5:
                    parts.append(self.bool_expr(1))
                    ts.append(B)
                else:
                    s, t = r.choice([(s, t) for s, t in self.paths("int")] or [("1", I(2))])
                    if s == "1":
                        parts.append(self.bool_expr(1))
                        ts.append(B)
                    else:
                        parts.append(s)
                        ts.append(t)
            out = self.flush(pad, [pad + "%s = (%s)" % (nm, ", ".join(parts))])
            self.env[nm] = {"t": ("tup", tuple(ts)), "loc": False}
            return out
        if k == "unpack":
            vs = [(v, d["t"]) for v, d in self.env.items() if d["t"][0] == "tup" and all(e[0] in ("bool", "int") for e in d["t"][1])]
            if vs:
                v, t = r.choice(vs)
                names = [self.fresh("u") for _ in t[1]]
                for nm, e in zip(names, t[1]):
                    self.env[nm] = {"t": e, "loc": True}
                return [pad + "%s = %s" % (", ".join(names), v)]
        if in_branch and loc:
            return self.assign_to(r.choice(loc), pad)
        nm = self.fresh("v")
        if r.random() < 0.55:
            e, w = self.int_expr(2)
            out = self.flush(pad, [pad + "%s = %s" % (nm, e)])
            self.env[nm] = {"t": I(w or 4), "loc": True, "const": not _has_var(e)}
        else:
            e = self.bool_expr(2)
            out = self.flush(pad, [pad + "%s = %s" % (nm, e)])
            self.env[nm] = {"t": B, "loc": True}
        return out


ARGT = [
    B, B, I(2), I(2), I(3), I(4), I(2), C,
    ("tup", (B, I(2))), ("tup", (I(2), I(2))), ("tup", (("tup", (B, B)), I(2))), ("tup", (I(2), B, I(3))),
    ("list", B, 3), ("list", I(2), 3), ("list", I(2), 4), ("list", B, 4), ("list", ("tup", (B, I(2))), 2),
    ("matrix", B, 2, 2), ("matrix", I(2), 2, 2), ("matrix", B, 2, 3),
]


def rand_value(rnd, t):
    if t == B:
        return rnd.random() < 0.5
    if t[0] == "int":
        return rnd.randrange(2 ** t[1])
    return [rand_value(rnd, e) for e in elems(t)]


def one_program(rnd, maxbits=14, name="prog", argnames="abc", argt=ARGT, nstmts=(2, 5), funs=(), params=0, simple_ret=False, info=None):
    g = Gen(rnd)
    g.funs = list(funs)
    g.products_in_loops = bool(params)
    args = []
    tot = 0
    sig = []
    nargs = rnd.randint(1, 3)
    pidx = set(rnd.sample(range(nargs), min(params, nargs))) if params else set()
    for k in range(nargs):
        for _ in range(8):
            t = rnd.choice(argt)
            if tot + bits(t) <= maxbits and not (k in pidx and t == C):
                break
        else:
            t = B
        nm = argnames[k]
        if k not in pidx:
            tot += bits(t)
        # a scalar compile-time parameter may be re-assigned like any local (under a condition too)
        g.env[nm] = {"t": t, "loc": bool(k in pidx and t[0] in ("bool", "int"))}
        sig.append((nm, t, k in pidx))
        args.append("%s: %s" % (nm, ("Parameter[%s]" % ann(t)) if k in pidx else ann(t)))
    body = []
    for _ in range(rnd.randint(*nstmts)):
        body += g.stmt(0, 1)
    c = rnd.random()
    if simple_ret:
        c = c * 0.7 if c < 0.95 else 0.8
    rett = None
    if info is not None:
        info["sig"] = sig
    if c < 0.3:
        ret, e = "bool", g.bool_expr(2)
    elif c < 0.7:
        e, w = g.int_expr(2)
        ret = "Qint[%d]" % (rnd.choice([2, 3, 4, 4, 6, 8]) if not simple_ret else (w or 4))
    elif c < 0.9:
        parts, ts = [], []
        for _ in range(rnd.choice([2, 2, 3])):
            if rnd.random() < 0.5:
                parts.append(g.bool_expr(1))
                ts.append("bool")
            else:
                s, w = g.int_expr(1)
                if w:
                    parts.append(s)
                    ts.append("Qint[%d]" % w)
                else:
                    parts.append(g.bool_expr(1))
                    ts.append("bool")
        ret, e = "Tuple[%s]" % ", ".join(ts), "(%s)" % ", ".join(parts)
    else:
        n = rnd.choice([2, 3])
        if rnd.random() < 0.5:
            ret, e = "Qlist[bool, %d]" % n, "[%s]" % ", ".join(g.bool_expr(1) for _ in range(n))
        else:
            xs = [g.int_leaf(2) for _ in range(n)]
            xs = [(s, w) for s, w in xs]
            w = max(w for _, w in xs)
            if len({w_ for _, w_ in xs}) == 1:
                ret, e = "Qlist[Qint[%d], %d]" % (w, n), "[%s]" % ", ".join(s for s, _ in xs)
            else:
                ret, e = "Qlist[bool, %d]" % n, "[%s]" % ", ".join(g.bool_expr(1) for _ in range(n))
    body.append("    return %s" % e)
    body = ["    " + p for p in g.pre] + body
    if info is not None:
        info["ret"] = ret
    return "def %s(%s) -> %s:\n%s\n" % (name, ", ".join(args), ret, "\n".join(body))


_CACHE = {}
SLOW = None


def _slow():
    global SLOW
    if SLOW is None:
        import json, os

        p = os.path.join(os.path.dirname(os.path.abspath(__file__)), "data", "slow_prog2.json")
        SLOW = set(json.load(open(p))) if os.path.exists(p) else set()
    return SLOW


def u_prog2(n=400, seed=4242, readable_only=True):
    """n generated programs (those the reference interpreter can read when readable_only)"""
    key = (n, seed, readable_only)
    if key in _CACHE:
        return _CACHE[key]
    rnd = random.Random(seed)
    out = []
    seen = set()
    tries = 0
    while len(out) < n and tries < n * 8:
        tries += 1
        src = one_program(rnd)
        if src in seen or len(src) > 900:
            continue
        import hashlib

        if hashlib.sha1(src.encode()).hexdigest()[:12] in _slow():
            continue
        seen.add(src)
        if readable_only:
            from . import refsem

            try:
                refsem.reference(src)
            except (refsem.Unsupported, refsem.TypeMismatch, refsem.Undef):
                continue
            except Exception:
                continue
        out.append(("prog2", src))
    _CACHE[key] = out
    return out


def _parse_ret(ret):
    import ast as _a

    def p(n):
        if isinstance(n, _a.Name):
            return B if n.id == "bool" else C
        if n.value.id == "Qint":
            return I(n.slice.value)
        if n.value.id == "Tuple":
            return ("tup", tuple(p(e) for e in n.slice.elts))
        if n.value.id == "Qlist":
            return ("list", p(n.slice.elts[0]), n.slice.elts[1].value)
        raise ValueError(ret)

    return p(_a.parse(ret, mode="eval").body)


CALLEE_ARGT = [B, B, I(2), I(2), I(3), ("tup", (B, I(2))), ("tup", (I(2), I(2))), ("tup", (B, B, B))]


def u_compose2(n=200, seed=777):
    """random two-level compositions: one or two generated callees (g, k) and a generated caller whose
    expressions call them with variables, tuple elements, compound and constant actuals"""
    key = ("compose2", n, seed)
    if key in _CACHE:
        return _CACHE[key]
    from . import refsem
    import ast as _a

    rnd = random.Random(seed)
    out = []
    tries = 0
    while len(out) < n and tries < n * 10:
        tries += 1
        callees = []
        funs = []
        for nm in ("g", "k")[: rnd.choice([1, 1, 2])]:
            info = {}
            src = one_program(rnd, maxbits=6, name=nm, argnames="xyz", argt=CALLEE_ARGT, nstmts=(0, 2), simple_ret=True, info=info)
            try:
                rt = _parse_ret(info["ret"])
            except Exception:
                break
            if rt[0] == "list":
                break
            callees.append(src)
            funs.append((nm, [t for _, t, _ in info["sig"]], rt))
        else:
            caller = one_program(rnd, maxbits=10, name="caller", argnames="abc", nstmts=(1, 3), funs=funs)
            if "g(" not in caller:
                continue
            try:
                fd = {}
                for c in callees:
                    d = _a.parse(c).body[0]
                    fd[d.name] = d
                refsem.reference(caller, funs=fd)
            except (refsem.Unsupported, refsem.TypeMismatch, refsem.Undef):
                continue
            except Exception:
                continue
            it = {"fam": "compose-rand", "callee": callees[0], "caller": caller}
            if len(callees) > 1:
                it["callee2"] = callees[1]
            out.append(it)
    _CACHE[key] = out
    return out


def u_param2(n=150, seed=888):
    """generated programs in which one or two arguments are compile-time parameters, with two
    values drawn from the parameter types: items carry bind histories [v], [v, w, v]"""
    key = ("param2", n, seed)
    if key in _CACHE:
        return _CACHE[key]
    from . import refsem

    rnd = random.Random(seed)
    out = []
    tries = 0
    PT = [B, I(2), I(2), I(3), ("tup", (B, I(2))), ("list", B, 3), ("list", I(2), 3), ("list", I(2), 4), ("matrix", I(2), 2, 2), ("tup", (I(2), I(2)))]
    while len(out) < n and tries < n * 10:
        tries += 1
        info = {}
        src = one_program(rnd, maxbits=10, argt=PT, nstmts=(1, 4), params=rnd.choice([1, 1, 2]), info=info)
        ps = [(nm, t) for nm, t, isp in info["sig"] if isp]
        v = {nm: rand_value(rnd, t) for nm, t in ps}
        w = {nm: rand_value(rnd, t) for nm, t in ps}
        try:
            refsem.reference(src, param_values=v)
            refsem.reference(src, param_values=w)
        except (refsem.Unsupported, refsem.TypeMismatch, refsem.Undef):
            continue
        except Exception:
            continue
        out.append({"fam": "param-rand", "src": src, "v": v, "w": w})
    _CACHE[key] = out
    return out
