"""Shared decision procedure: library expressions (real front-end + optimizer) vs RefSem demand.
Used by C01 (programs), C07 (composition), C08 (parameter binding)."""
import ast

import z3

from . import boolq, refsem
from .common import Stats

RLIMIT = 200_000_000


def model_values(model, ref):
    """concrete python argument values from a model, by declared type"""
    names = iter(ref["argbits"])

    def val(t):
        if t[0] == "bool":
            return bool(z3.is_true(model.eval(z3.Bool(next(names)), model_completion=True)))
        if t[0] in ("int", "char", "fixed"):
            bits = [bool(z3.is_true(model.eval(z3.Bool(next(names)), model_completion=True))) for _ in range(refsem.width(t))]
            if t[0] == "int":
                return sum(1 << k for k, b in enumerate(bits) if b)
            if t[0] == "char":
                return chr(sum(1 << k for k, b in enumerate(bits) if b))
            i, f = t[1], t[2]
            sc = sum(1 << (f + k) for k in range(i) if bits[k]) + sum(1 << (f - 1 - j) for j in range(f) if bits[i + j])
            return sc / float(2 ** f)
        return tuple(val(x) for x in t[1])

    return [val(t) for _, t in ref["args"]]


def value_bits(values, ref):
    out = {}
    names = iter(ref["argbits"])

    def put(v, t):
        if t[0] == "tuple":
            for x, tt in zip(v, t[1]):
                put(x, tt)
            return
        for b in refsem.python_value_bits(v, t):
            out[next(names)] = b

    for v, (_, t) in zip(values, ref["args"]):
        put(v, t)
    return out


def decide(qf, ref, st, original_f=None, truth_table_bits=0, validate=False):
    """returns (findings, status, note, nontrivial).  qf: real QlassF (expressions);
    ref: refsem.reference(...) result."""
    findings = []
    libbits = [b for a in qf.args for b in a.bitvec]
    if libbits != ref["argbits"]:
        findings.append({"kind": "arg-bits", "what": "argument bit names %s differ from the interface convention %s" % (libbits[:8], ref["argbits"][:8]), "cex": {}, "replayed": True})
        return findings, "ok", "", False
    try:
        env = boolq.seq_env(qf.expressions, libbits)
    except boolq.FreeSymbol as e:
        findings.append({"kind": "free-symbol", "what": "expressions use symbol %s that is neither an argument bit nor defined earlier" % e, "cex": {}, "replayed": True})
        return findings, "ok", "", False
    except boolq.Unsupported as e:
        return findings, "skip", "unsupported term (%s)" % e, False
    retbits = list(qf.returns.bitvec)
    if len(retbits) != len(ref["want"]):
        return findings, "skip", "ref-shape %d vs %d" % (len(ref["want"]), len(retbits)), False
    missing = [r for r in retbits if r not in env]
    if missing:
        findings.append({"kind": "ret-undefined", "what": "return bits %s are never defined by the expressions (defined: %s)" % (missing[:6], [s.name for s, _ in qf.expressions][-6:]), "cex": {}, "replayed": True})
        return findings, "ok", "", False
    s = z3.Solver()
    s.set("rlimit", RLIMIT)
    nund = z3.Not(ref["undef"])
    bad = [z3.And(cond, nund, z3.Xor(bit, env[name])) for (bit, cond), name in zip(ref["want"], retbits)]
    v = st.check(s, z3.Or(*bad))
    status, note = "ok", ""
    if v == "sat":
        m = s.model()
        vals = model_values(m, ref)
        asg = value_bits(vals, ref)
        demanded = [k for k, ((bit, cond), name) in enumerate(zip(ref["want"], retbits)) if z3.is_true(m.eval(z3.And(cond, nund), model_completion=True))]
        try:
            libv = boolq.eval_exprs_concrete(qf.expressions, asg)
        except boolq.FreeSymbol as e:
            libv = None
        exp_bits = None
        how = "python"
        if original_f is not None:
            try:
                pv = original_f(*vals)
                exp_bits = refsem.python_value_bits(pv, ref["ret_type"])
            except Exception as e:
                exp_bits = None
                how = "python raised %s" % type(e).__name__
        if exp_bits is None:
            # the python function could not be evaluated on plain values: fall back to the reference term
            exp_bits = [bool(z3.is_true(m.eval(bit, model_completion=True))) for bit, _ in ref["want"]]
            how = "reference (%s)" % how
        if libv is not None:
            wrong = [k for k in demanded if libv[retbits[k]] != exp_bits[k]]
            if wrong:
                findings.append({
                    "kind": "wrong-bit",
                    "what": "args %s: return bits %s are %s in the library's expressions, %s says %s" % (vals, [retbits[k] for k in wrong], [libv[retbits[k]] for k in wrong], how, [exp_bits[k] for k in wrong]),
                    "cex": {"args": repr(vals)},
                    "replayed": True,
                })
            else:
                status, note = "inconclusive", "counterexample %s did not reproduce against the python function" % (vals,)
        else:
            status, note = "inconclusive", "expressions not evaluable"
    elif v != "unsat":
        status, note = "inconclusive", "solver: " + v
    # vacuity guard: some demand must be reachable
    v2 = st.check(s, z3.Or(*[z3.And(c, nund) for _, c in ref["want"]]))
    nontrivial = v2 == "sat"
    if v2 == "unsat":
        note = note or "vacuous demand (python raises or overflows on every input)"
    if validate and original_f is not None and not findings and status == "ok":
        ok = validate_ref(ref, original_f, s, st)
        if ok is False:
            status, note = "inconclusive", "RefSem disagrees with the python function on a sample input (translator validation)"
    if truth_table_bits and len(libbits) <= truth_table_bits and len(libbits) + len(retbits) <= 20 and status == "ok":
        f2 = truth_table_query(qf, env, libbits, retbits, s, st)
        findings += f2
    return findings, status, note, nontrivial


def validate_ref(ref, original_f, s, st):
    """translator validation: on inputs the solver picks inside the 'ok' region, the reference term
    must agree with calling the real python function."""
    nund = z3.Not(ref["undef"])
    allok = z3.And(nund, *[c for _, c in ref["want"]])
    s.push()
    try:
        for _ in range(2):
            if st.check(s, allok) != "sat":
                return None
            m = s.model()
            vals = model_values(m, ref)
            try:
                pv = original_f(*vals)
                pb = refsem.python_value_bits(pv, ref["ret_type"])
            except Exception:
                return None
            rb = [bool(z3.is_true(m.eval(bit, model_completion=True))) for bit, _ in ref["want"]]
            if pb != rb:
                return False
            # next sample: differ from this one
            s.add(z3.Or(*[z3.Bool(n) != m.eval(z3.Bool(n), model_completion=True) for n in ref["argbits"]]))
        return True
    finally:
        s.pop()


def truth_table_query(qf, env, libbits, retbits, s, st):
    """QlassF.truth_table() encoded as DNFs; one query: does any row disagree with the expressions."""
    out = []
    try:
        hdr = qf.truth_table_header()
        tt = qf.truth_table()
    except Exception as e:
        return [{"kind": "truth-table-raises", "what": "truth_table() raises %s: %s" % (type(e).__name__, str(e)[:80]), "cex": {}, "replayed": True}]
    n = len(libbits)
    if hdr[:n] != libbits:
        return [{"kind": "truth-table-header", "what": "header %s" % hdr, "cex": {}, "replayed": True}]
    if len(tt) != 2 ** n:
        return [{"kind": "truth-table-rows", "what": "%d rows for %d input bits" % (len(tt), n), "cex": {}, "replayed": True}]
    from sympy.logic.boolalg import BooleanFalse, BooleanTrue

    def tob(x):
        if x is True or isinstance(x, BooleanTrue):
            return True
        if x is False or isinstance(x, BooleanFalse):
            return False
        return None

    outs = hdr[n:]
    if len(outs) != len(retbits):
        return [{"kind": "truth-table-header", "what": "header lists %d outputs, function has %d return bits" % (len(outs), len(retbits)), "cex": {}, "replayed": True}]
    xs = [z3.Bool(b) for b in libbits]
    seen_rows = []
    dnf = [[] for _ in outs]
    for row in tt:
        ins = [tob(v) for v in row[:n]]
        minterm = z3.And(*[x if b else z3.Not(x) for x, b in zip(xs, ins)])
        seen_rows.append(minterm)
        for k in range(len(outs)):
            ov = tob(row[n + k])
            if ov is None:
                return [{"kind": "truth-table-symbolic", "what": "row %s holds a non-constant %s" % (row[:n], row[n + k]), "cex": {}, "replayed": True}]
            if ov:
                dnf[k].append(minterm)
    q = [z3.Not(z3.Or(*seen_rows))]
    for k, name in enumerate(outs):
        if name not in env:
            continue
        q.append(z3.Xor(z3.Or(*dnf[k]) if dnf[k] else z3.BoolVal(False), env[name]))
    v = st.check(s, z3.Or(*q))
    if v == "sat":
        asg = boolq.model_bools(s.model(), libbits)
        libv = boolq.eval_exprs_concrete(qf.expressions, asg)
        row = [r for r in tt if [tob(x) for x in r[:n]] == [asg[b] for b in libbits]]
        if not row:
            out.append({"kind": "truth-table-rows", "what": "no row for input %s" % asg, "cex": {"inputs": asg}, "replayed": True})
        else:
            got = [tob(x) for x in row[0][n:]]
            want = [libv[o] for o in outs]
            if got != want:
                out.append({"kind": "truth-table-wrong", "what": "input %s: truth_table row says %s, expressions evaluate to %s" % (asg, got, want), "cex": {"inputs": asg}, "replayed": True})
    return out
