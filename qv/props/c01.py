"""C01 — Boolean expressions mean what the Python source means."""
import sys

from .. import boolq, corpus, corpus2, frontend, refsem
from ..common import Stats, item_id, main_for, slice_quick

PID = "C01"
LEVEL = "translation_validation"
ITEM_CAP = {"quick": 60, "thorough": 90}
FUNCS = [
    "qlasskit.qlassfun.qlassf / QlassF.from_function (to_compile=False)",
    "qlasskit.ast2ast.ast2ast (ConstantFolder, ReplaceTypeAnn, ReplaceMultiTargetAssign, ASTRewriter)",
    "qlasskit.ast2logic.{translate_ast,translate_statement,translate_expression,translate_arguments}",
    "qlasskit.types.{QintImp,QfixedImp,Qchar,Qbool,Qtype}.* (add, sub, mul, mod, eq, gt, ..., shift, fill, crop, const)",
    "qlasskit.boolopt.{defaultOptimizer,fastOptimizer}.apply",
    "qlasskit.qlassfun.QlassF.truth_table / truth_table_header",
]
BOUNDS = {
    "quick": "programs: fixed core + seed-selected slice of the universe, both optimizer profiles; widths <= 4 (unit family), <= 16 input bits; truth_table compared for <= 8 input bits; every argument value symbolic",
    "thorough": "whole universe: unit ops widths {2,3,4,5,6,8}^2 (+ (8,12),(12,16)), bool families (nary, or-of-ands, 600 random depth 3/4), control-flow family, 600 + 1500 typed random multi-statement programs (prog-rand, prog2: containers, variable indices, lookup tables, builtins, tuple locals, unpacking, nested if/else, loops), reject family, frozen repo test programs; both profiles",
}
OUTSIDE = "program text is enumerated, not symbolic; hybrid Q.* gates; Qfixed with non-dyadic constants; programs RefSem cannot read are counted ('ref-unsupported'), not judged"
ASSUMPTIONS = [
    "RefSem (qv/refsem.py) is the reference meaning of the python subset under fixed-width unsigned types; validated each run against the real python function on solver-chosen in-range inputs and by replaying every counterexample on it",
    "typing rules for intermediates where the documentation is silent are frozen from the pinned tree (wider operand for + - & | ^ and if-expressions, bucket(2*max) for *, operand width for shifts and ~)",
    "engine A's sympy->z3 translation (self-test on every run)",
]


def make_items(tier, seed):
    core, rest = [], []
    small = corpus.u_bool_small()
    ctl = corpus.u_ctl()
    rej = corpus.u_reject()
    unit_q = corpus.u_unit(widths=(2, 3, 4))
    prand = corpus.u_prog_random(600 if tier == "thorough" else 300)
    p2 = corpus2.u_prog2(1500 if tier == "thorough" else 500)
    core_progs = small[:40] + ctl + rej + unit_q[:: max(1, len(unit_q) // 150)] + prand[:80] + p2[:100]
    rest_progs = p2[100:] + corpus.u_stale() + prand[80:] + small[40:] + unit_q + corpus.u_bool_multistmt() + corpus.u_bool_random(300) + corpus.u_bool_or_of_ands()[::9] + corpus.u_repo_frozen()
    if tier == "thorough":
        wide = corpus.u_unit(widths=(5, 6, 8), consts=(0, 1, 3, 6, 10, 12, 14, 15, 200, 255)) + corpus.u_unit_pairs([(2, 8), (8, 2), (4, 8), (8, 4), (8, 12), (12, 8), (12, 16), (16, 12), (16, 16), (3, 6), (6, 3)])
        # symbolic-by-symbolic products and powers above 4 bits make sympy (not the solver) run for
        # minutes per program: only products by a constant are kept for the wide operand family
        wide = [p for p in wide if "**" not in p[1] and not ("a * b" in p[1]) and not ("*" in p[1] and ("200" in p[1] or "255" in p[1] or "Qint[8]" in p[1]))]
        rest_progs += wide + corpus.u_bool_random(600) + corpus.u_bool_or_of_ands()
    seen = set()

    def push(lst, dest):
        for fam, src in lst:
            if not corpus.size_ok(src, 32 if tier == "thorough" else 16, 90):
                continue
            for opt in ("default", "fast"):
                sp = {"fam": fam, "src": src, "opt": opt}
                k = item_id(sp)
                if k not in seen:
                    seen.add(k)
                    dest.append(sp)

    slow = lambda src: "a: Qint[4]" in src and "** 3" in src
    core_progs = [p for p in core_progs if not slow(p[1])]
    rest_progs = [p for p in rest_progs if not slow(p[1])]
    push(core_progs, core)
    push(rest_progs, rest)
    if tier == "thorough":
        return core + rest
    return slice_quick(core + rest, seed, len(core), 3000)


def check_item(spec):
    from qlasskit import qlassf
    from ..circ import opts

    st = Stats()
    res = {"status": "ok", "findings": [], "nontrivial": False, "cls": ""}
    try:
        qf = qlassf(spec["src"], to_compile=False, bool_optimizer=opts()[spec["opt"]])
    except Exception as e:
        res["cls"] = "lib-reject"
        res["note"] = type(e).__name__
        return res
    if not hasattr(qf, "returns"):
        res["cls"] = "unbound"
        return res
    from ..circ import has_quantum

    if has_quantum(qf):
        res["cls"] = "hybrid"
        return res
    # whatever the reference interpreter can read: an accepted program must not mention a symbol that
    # is neither an argument bit nor defined earlier, and must define every return bit
    try:
        _env = boolq.seq_env(qf.expressions, [b for a in qf.args for b in a.bitvec])
        _miss = [r for r in qf.returns.bitvec if r not in _env]
        if _miss:
            res["cls"] = "judged"
            res["findings"] = [{"kind": "ret-undefined", "what": "return bits %s are never defined by the expressions" % _miss[:6], "cex": {}, "replayed": True}]
            return res
    except boolq.FreeSymbol as e:
        res["cls"] = "judged"
        res["findings"] = [{"kind": "free-symbol", "what": "expressions use symbol %s that is neither an argument bit nor defined earlier: %s" % (e, str(qf.expressions)[:120]), "cex": {}, "replayed": True}]
        return res
    except boolq.Unsupported:
        pass
    try:
        ref = refsem.reference(spec["src"])
    except refsem.Unsupported as e:
        res["cls"] = "accepted-unjudged" if spec["fam"] == "reject" else "ref-unsupported"
        res["note"] = str(e)
        return res
    except refsem.TypeMismatch as e:
        res["cls"] = "judged"
        res["findings"] = [{"kind": "accepted-type-mismatch", "what": "accepted although the returned value is not of the declared type (%s); expressions: %s" % (e, str(qf.expressions)[:120]), "cex": {}, "replayed": True}]
        return res
    except refsem.Undef:
        res["cls"] = "ref-undef"
        return res
    tt = 8 if int(item_id(spec), 16) % 3 == 0 else 0
    findings, status, note, nontriv = frontend.decide(qf, ref, st, original_f=qf.original_f, truth_table_bits=tt, validate=(int(item_id(spec), 16) % 4 == 0))
    res.update(findings=findings, status=status, note=note, nontrivial=nontriv, cls="judged", B=ref["B"], inbits=len(ref["argbits"]))
    return st.into(res)


def coverage(specs, results):
    import collections

    cls = collections.Counter(r.get("cls", "") for r in results)
    judged = [r for r in results if r.get("cls") == "judged" and r["status"] == "ok"]
    fam = collections.Counter()
    for sp, r in zip(specs, results):
        if r.get("cls") == "judged":
            fam[sp["fam"].split(":")[0]] += 1
    unsup = collections.Counter(r.get("note", "")[:40] for r in results if r.get("cls") == "ref-unsupported")
    rej_unj = [sp["src"] for sp, r in zip(specs, results) if r.get("cls") == "accepted-unjudged"]
    samples = []
    for sp, r in zip(specs, results):
        if r.get("cls") == "judged" and len(samples) < 4 and sp["fam"].split("-")[0] not in [s["fam"].split("-")[0] for s in samples]:
            samples.append({"fam": sp["fam"], "src": sp["src"], "opt": sp["opt"], "input_bits": r.get("inbits"), "verdict": "demand holds for all argument values" if not r["findings"] else [f["kind"] for f in r["findings"]]})
    return {
        "programs": len(judged),
        "disagreements_checked": sum(1 for r in results if r["findings"]),
        "samples": samples,
        "classes": dict(cls),
        "judged_by_family": dict(fam),
        "ref_unsupported_reasons": dict(unsup.most_common(10)),
        "reject_family_accepted_but_unjudged": rej_unj[:10],
        "distinct_nontrivial": sum(1 for r in judged if r.get("nontrivial")),
        "evaluations": len(results),
        "max_input_bits": max([r.get("inbits", 0) for r in judged] or [0]),
        "rule": "one item = (program, optimizer profile); judged = library accepts and RefSem reads it; non-trivial = the demand is satisfiable (some input on which python neither raises nor overflows before a consumer)",
    }


if __name__ == "__main__":
    boolq.selftest()
    sys.exit(main_for(sys.modules[__name__]))
