"""C02 — the circuit computes the function's boolean expressions."""
from . import circshared as cs
from ..common import main_for
import sys

PID = "C02"
LEVEL = "translation_validation"
ITEM_CAP = {"quick": 90, "thorough": 300}
FUNCS = ["qlasskit.qlassfun.qlassf", "qlasskit.compiler.internalcompiler.InternalCompiler.compile (+compile_expr/_and/_or/_not/_xor/_symbol)",
         "qlasskit.compiler.expqmap.ExpQMap", "qlasskit.qcircuit.qcircuitenhanced.QCircuitEnhanced.{uncompute,uncompute_all,remove_identities,get_free_ancilla,map_qubit}",
         "qlasskit.qlassfun.QlassF.output_qubits"]
BOUNDS = {"quick": "programs: fixed core (control-flow, names, alias, stale, self-if, generated prog2 slices) + 2600 seed-selected items of the universe; a fifth of the items with a compile history; <=16 input bits; configs {default,fast}x{uncompute on,off}; every input basis state symbolic",
          "thorough": "the whole universe (bool families, unit ops widths 2..4, control-flow family, repo test programs <=16 input bits); same configs"}
OUTSIDE = "program text is enumerated, not symbolic; compilers other than 'internal'; hybrid Q.* gates; programs whose compile raises are counted, not judged"
ASSUMPTIONS = ["gate semantics table of engine A (X, C^nX, SWAP, nop) — validated each run against CNotSim and an independent bit simulator",
               "meaning of QlassF.expressions = sequential definitions (later shadow earlier)", "PYTHONHASHSEED=0 fixes set iteration order inside qlasskit"]


def make_items(tier, seed):
    return cs.corpus_items(tier, seed)


def check_item(spec):
    return cs.check(spec, "C02")


def coverage(specs, results):
    return cs.coverage(specs, results, "one item = (program, optimizer profile, uncompute flag); non-trivial = circuit has >=1 gate and >=1 input bit; one z3 query decides all 2^n inputs")


if __name__ == "__main__":
    from .. import boolq
    boolq.selftest()
    sys.exit(main_for(sys.modules[__name__]))
