"""C04 — Boolean optimizer profiles (and each single step) preserve meaning."""
import itertools
import random
import sys

import z3

from .. import boolq, corpus
from ..common import Stats, item_id, main_for, slice_quick

PID = "C04"
LEVEL = "translation_validation"
ITEM_CAP = {"quick": 120, "thorough": 600}
RLIMIT = 80_000_000
FUNCS = [
    "qlasskit.boolopt.bool_optimizer.BoolOptimizerProfile.apply (defaultOptimizer, fastOptimizer)",
    "qlasskit.boolopt.bool_optimizer.{merge_expressions,custom_simplify_logic,apply_cse}",
    "qlasskit.boolopt.exp_transformers.{remove_ITE,remove_Implies,transform_or2xor,transform_or2and,remove_obvious_expr}",
    "qlasskit.boolopt.sympytransformer.SympyTransformer",
    "qlasskit.ast2logic.t_ast.translate_ast (its per-expression simplify_logic call, observed through a recording wrapper)",
]
BOUNDS = {
    "quick": "expression lists: fixed core + seed-selected slice; <=6 input symbols; synthetic trees depth<=4; 9 profiles (default, fast, 7 single steps); all assignments symbolic",
    "thorough": "all 9408 or-of-two-ands shapes over 4 symbols, depth<=2 trees over 3 symbols (n-ary/ITE families sampled with fixed seeds), 1000 fixed-seed depth 3/4 trees over 5 symbols, each in 3 list shapes; unoptimised lists of ~700 corpus programs",
}
OUTSIDE = "expression lists are enumerated, not symbolic; QuantumBooleanGate terms"
ASSUMPTIONS = [
    "meaning of a definition list = sequential definitions over the free input symbols (engine A s2z)",
    "sympy constructors used to build synthetic terms behave as in the front-end (terms are built through sympy's public And/Or/Not/Xor/ITE/Implies)",
]

SYMS = ["a", "b", "c", "d", "e"]


# ------------------------------------------------------------------ term (de)serialisation
def sx(t):
    from sympy import Symbol
    from sympy.logic.boolalg import ITE, And, Implies, Not, Or, Xor, false, true

    if t is True:
        return true
    if t is False:
        return false
    if isinstance(t, str):
        return Symbol(t)
    op, args = t[0], [sx(x) for x in t[1:]]
    if op == "and":
        return And(*args)
    if op == "or":
        return Or(*args)
    if op == "xor":
        return Xor(*args)
    if op == "not":
        return Not(args[0])
    if op == "nn":
        return Not(Not(args[0]), evaluate=False)
    if op == "ite":
        return ITE(*args)
    if op == "imp":
        return Implies(*args)
    raise ValueError(op)


def profiles():
    from qlasskit.boolopt import BoolOptimizerProfile, defaultOptimizer, fastOptimizer
    from qlasskit.boolopt.bool_optimizer import apply_cse, merge_expressions
    from qlasskit.boolopt.exp_transformers import remove_Implies, remove_ITE, remove_obvious_expr, transform_or2and, transform_or2xor

    P = {"default": defaultOptimizer, "fast": fastOptimizer}
    P["step:merge_expressions"] = BoolOptimizerProfile([merge_expressions])
    P["step:apply_cse"] = BoolOptimizerProfile([apply_cse])
    P["step:remove_ITE"] = BoolOptimizerProfile([remove_ITE()])
    P["step:remove_Implies"] = BoolOptimizerProfile([remove_Implies()])
    P["step:transform_or2xor"] = BoolOptimizerProfile([transform_or2xor()])
    P["step:transform_or2and"] = BoolOptimizerProfile([transform_or2and()])
    P["step:remove_obvious_expr"] = BoolOptimizerProfile([remove_obvious_expr()])
    return P


# ------------------------------------------------------------------ synthetic universes
def lit(v, p):
    return ["not", v] if p else v


def fam_or_of_ands():
    V = SYMS[:4]
    terms = []
    for k in (2, 3):
        for vs in itertools.combinations(V, k):
            for pol in itertools.product([0, 1], repeat=k):
                terms.append(["and"] + [lit(v, p) for v, p in zip(vs, pol)])
    out = []
    for i, t1 in enumerate(terms):
        for t2 in terms[i + 1 :]:
            out.append(["or", t1, t2])
    return out


def fam_depth2():
    A = SYMS[:3]
    l1 = []
    for op in ("and", "or", "xor"):
        for x, y in itertools.combinations(A, 2):
            l1.append([op, x, y])
        l1.append([op] + A)
    for x in A:
        l1.append(["not", x])
    for x, y in itertools.permutations(A, 2):
        l1.append(["imp", x, y])
    for p in itertools.permutations(A, 3):
        l1.append(["ite"] + list(p))
    pool = A + l1
    out = list(l1)
    for op in ("and", "or", "xor"):
        for i, x in enumerate(pool):
            for y in pool[i + 1 :]:
                if isinstance(x, str) and isinstance(y, str):
                    continue
                out.append([op, x, y])
    for x in pool:
        for y in pool:
            if x is y or (isinstance(x, str) and isinstance(y, str)):
                continue
            out.append(["imp", x, y])
    for x in l1:
        out.append(["not", x])
        out.append(["nn", x])
    rnd = random.Random(4242)
    for op in ("and", "or", "xor"):
        for _ in range(300):
            out.append([op] + rnd.sample(pool, 3))
        for _ in range(100):
            out.append([op] + rnd.sample(pool, 4))
    for _ in range(600):
        out.append(["ite", rnd.choice(pool), rnd.choice(pool), rnd.choice(pool)])
    return out


def _rtree(rnd, d, V):
    if d == 0 or rnd.random() < 0.12:
        v = rnd.choice(V)
        return v if rnd.random() < 0.7 else ["not", v]
    op = rnd.choice(["and", "or", "xor", "not", "ite", "imp", "and3", "or3", "xor3", "or4", "nn"])
    r = lambda: _rtree(rnd, d - 1, V)
    if op in ("not", "nn"):
        return [op, r()]
    if op == "ite":
        return ["ite", r(), r(), r()]
    if op == "imp":
        return ["imp", r(), r()]
    if op.endswith("3"):
        return [op[:-1], r(), r(), r()]
    if op.endswith("4"):
        return [op[:-1], r(), r(), r(), r()]
    return [op, r(), r()]


def fam_random(n=1000, seed=2024):
    rnd = random.Random(seed)
    return [_rtree(rnd, 3 + (i % 2), SYMS) for i in range(n)]


def shapes(terms, rnd):
    """single _ret / two return bits / shared intermediates"""
    out = []
    for i, t in enumerate(terms):
        k = i % 3
        if k == 0 or len(terms) < 3:
            out.append([["_ret", t]])
        elif k == 1:
            out.append([["_ret.0", t], ["_ret.1", terms[(i * 7 + 1) % len(terms)]]])
        else:
            u = terms[(i * 5 + 2) % len(terms)]
            out.append([["t0", t], ["_ret.0", ["xor", "t0", u]], ["_ret.1", ["and", "t0", ["not", u]]]])
    return out


CSE_UNMERGED = [
    [["t", ["xor", "c", ["and", "a", "b"]]], ["u", ["and", "a", "b", "t"]], ["_ret", ["or", "u", ["and", "a", "b", "t", "d"]]]],
    [["t", ["or", "a", "b"]], ["_ret.0", ["and", ["xor", "t", "c"], "d"]], ["_ret.1", ["or", ["xor", "t", "c"], "d"]]],
    [["t", ["and", "a", "b"]], ["u", ["and", ["or", "t", "c"], "d"]], ["_ret", ["xor", "u", ["or", "t", "c"]]]],
]


def fam_many_rets():
    """more than 16 return bits with sub-expressions shared across the whole list"""
    out = []
    sh1, sh2, sh3 = ["and", "a", "b", "c"], ["or", "c", "d", "e"], ["xor", "a", ["and", "d", "e"]]
    for n in (17, 20, 33):
        lst = []
        for k in range(n):
            v = SYMS[k % 5]
            body = [["xor", sh1, sh2, v], ["and", sh3, ["or", sh1, v]], ["or", ["and", sh1, sh2], ["not", v]], ["xor", sh3, sh2]][k % 4]
            lst.append(["_ret.%d" % k, body])
        out.append(lst)
    return out


def fam_compound_xnor():
    """or of two ands whose members are compound terms / literals in complementary pairs"""
    X = ["a", "b", ["or", "a", "c"], ["xor", "c", "d"], ["and", "b", "d"], ["not", ["or", "b", "c"]]]
    out = []
    for x in X:
        for y in X:
            if x is y:
                continue
            nx, ny = ["not", x], ["not", y]
            out.append(["or", ["and", x, ny], ["and", nx, y]])
            out.append(["or", ["and", x, y], ["and", nx, ny]])
            out.append(["or", ["and", nx, y], ["and", x, ny]])
            out.append(["or", ["and", y, x], ["and", nx, ny]])
    return out


BIG_INTERMEDIATE = [
    "def prog(a: Qint[16], b: Qint[16], c: bool) -> Tuple[bool, bool]:\n    lt = a < b\n    return (lt and c, lt or c)\n",
    "def prog(a: Qint[16], b: Qint[16], c: bool) -> bool:\n    t = c and a[0]\n    c = a < b\n    return t != c\n",
    "def prog(a: Qint[12], b: Qint[12], c: bool) -> Tuple[bool, bool, bool]:\n    g = a > b\n    e = a == b\n    return (g and c, e or c, g != e)\n",
    "def prog(a: Qint[8], b: Qint[8], c: bool) -> Tuple[bool, bool]:\n    lt = a < b\n    return (lt and c, lt or c)\n",
]


INTERLEAVED = [
    [["t", ["and", "a", "b"]], ["_ret.0", ["xor", "t", "c"]], ["t", ["or", "a", "b"]], ["_ret.1", ["and", "t", "c"]]],
    [["_ret.0", ["and", "a", "b"]], ["a", ["xor", "a", "c"]], ["_ret.1", ["or", "a", "b"]]],
    [["t", ["xor", "a", "b"]], ["_ret.0", "t"], ["t", ["not", "t"]], ["_ret.1", "t"], ["t", ["and", "t", "c"]], ["_ret.2", ["or", "t", "d"]]],
    [["u", ["or", "a", "b"]], ["_ret.0", ["and", "u", "c"]], ["c", ["not", "c"]], ["_ret.1", ["and", "u", "c"]]],
    [["t", ["and", "a", ["not", "b"]]], ["_ret", ["or", "t", "c"]], ["t", ["and", "b", ["not", "a"]]]],
]


def fam_same_operands():
    """two different operators over the same operand list under a third one: the shapes on which
    an algebraic identity for binary operators is wrongly applied to n-ary ones"""
    out = []
    V = ["a", "b", "c", "d"]
    for n in (2, 3, 4):
        ops = V[:n]
        variants = [ops, [["not", ops[0]]] + ops[1:], ops[:-1] + [["and", ops[-1], "e"]]]
        for args in variants:
            inner = {"and": ["and"] + args, "or": ["or"] + args, "xor": ["xor"] + args}
            for o1, o2 in itertools.permutations(inner, 2):
                for outer in ("or", "and", "xor"):
                    for neg in (0, 1, 2):
                        x, y = inner[o1], inner[o2]
                        if neg == 1:
                            y = ["not", y]
                        elif neg == 2:
                            x = ["not", x]
                        out.append([outer, x, y])
                        out.append(["xor", "e", [outer, x, y]])
    return out


def fam_demorgan_pairs():
    """operands that differ only by the spelling of a wide Or/And (plain vs its De Morgan dual):
    a rewrite that normalises them meets Or(X, X) / And(X, X) collapsing to X"""
    out = []
    wides = [(["or", "p", "q", "r"], ["not", ["and", ["not", "p"], ["not", "q"], ["not", "r"]]]), (["and", "p", "q", "r"], ["not", ["or", ["not", "p"], ["not", "q"], ["not", "r"]]]), (["or", "p", "q"], ["not", ["and", ["not", "p"], ["not", "q"]]])]
    ctxs = [lambda w: w, lambda w: ["and", "x", w], lambda w: ["and", "x", "y", w], lambda w: ["or", "x", w], lambda w: ["xor", "x", "y", w], lambda w: ["and", "x", ["not", w]]]
    for w1, w2 in wides:
        for cx in ctxs:
            for outer in ("or", "and", "xor"):
                out.append([outer, cx(w1), cx(w2)])
                out.append([outer, cx(w2), cx(w1)])
                out.append(["or", "z", [outer, cx(w1), cx(w2)]])
    return out


def fam_ret_first():
    """lists that start with a return bit and define (and re-assign) intermediates later, with
    sub-expressions shared between the return bits that mention the intermediate"""
    out = []
    for g1, g2 in ((["xor", "c", "d"], ["and", "c", "d"]), (["or", "a", "c"], ["not", "c"]), (["and", "c", ["not", "d"]], ["xor", "a", "d"])):
        for sh in (["and", "t", "a"], ["xor", "t", "b"], ["or", "t", ["and", "a", "b"]]):
            out.append([["_ret.0", ["and", "a", "b"]], ["t", g1], ["_ret.1", ["or", sh, "b"]], ["_ret.2", ["xor", sh, "b"]]])
            out.append([["_ret.0", ["and", "a", "b"]], ["t", g1], ["_ret.1", ["or", sh, "b"]], ["t", g2], ["_ret.2", ["xor", sh, "b"]]])
            out.append([["_ret.0", sh if "t" not in str(sh) else ["or", "a", "b"]], ["t", g1], ["u", ["and", "t", "d"]], ["_ret.1", ["or", sh, "u"]], ["t", g2], ["_ret.2", ["and", sh, "u"]]])
    return out


def make_items(tier, seed):
    rnd = random.Random(77)
    core, rest = [], []
    for lst in fam_many_rets():
        core.append({"kind": "synth", "fam": "many-rets", "list": lst})
    for lst in INTERLEAVED:
        core.append({"kind": "synth", "fam": "interleaved", "list": lst})
    for t in fam_compound_xnor():
        core.append({"kind": "synth", "fam": "compound-xnor", "list": [["_ret", t]]})
    so = fam_same_operands()
    for t in so[::4]:
        core.append({"kind": "synth", "fam": "same-operands", "list": [["_ret", t]]})
    for t in so:
        rest.append({"kind": "synth", "fam": "same-operands", "list": [["_ret", t]]})
    dm = fam_demorgan_pairs()
    for t in dm[::2]:
        core.append({"kind": "synth", "fam": "demorgan-pairs", "list": [["_ret", t]]})
    for t in dm:
        rest.append({"kind": "synth", "fam": "demorgan-pairs", "list": [["_ret", t]]})
    for i, t in enumerate(dm[::5]):
        rest.append({"kind": "synth", "fam": "demorgan-pairs", "list": [["t0", t], ["_ret.0", ["xor", "t0", "z"]], ["_ret.1", ["and", "t0", "x"]]]})
    for lst in fam_ret_first():
        core.append({"kind": "synth", "fam": "ret-first", "list": lst})
    for src in BIG_INTERMEDIATE:
        core.append({"kind": "prog", "fam": "big-intermediate", "src": src})
    core.append({"kind": "prog", "fam": "many-rets", "src": "def prog(a: Qint[4], b: Qint[4], c: Qint[4]) -> Tuple[Qint[4], Qint[4], Qint[4], Qint[4], Qint[4]]:\n    return (a + b, b + c, a + c, a + b + c, (a + b) ^ c)\n"})
    ooa = fam_or_of_ands()
    d2 = fam_depth2()
    rt = fam_random()
    for lst in CSE_UNMERGED:
        core.append({"kind": "synth", "fam": "cse-unmerged", "list": lst})
    for lst in shapes(d2[:150], rnd):
        core.append({"kind": "synth", "fam": "depth2", "list": lst})
    for t in ooa[:: len(ooa) // 150]:
        core.append({"kind": "synth", "fam": "or-of-ands", "list": [["_ret", t]]})
    for lst in shapes(rt[:100], rnd):
        core.append({"kind": "synth", "fam": "random", "list": lst})
    progs = corpus.u_bool_small() + corpus.u_bool_multistmt() + corpus.u_ctl() + corpus.u_unit(widths=(2, 3))[::5] + [p for p in corpus.u_repo_frozen() if corpus.size_ok(p[1], 12, 60)]
    ctl_core = [p for p in corpus.u_ctl() if corpus.size_ok(p[1], 12, 60)]
    for fam, src in progs[:120] + ctl_core:
        core.append({"kind": "prog", "fam": fam, "src": src})
    for t in ooa:
        rest.append({"kind": "synth", "fam": "or-of-ands", "list": [["_ret", t]]})
    for lst in shapes(d2[150:], rnd):
        rest.append({"kind": "synth", "fam": "depth2", "list": lst})
    for lst in shapes(rt[100:], rnd):
        rest.append({"kind": "synth", "fam": "random", "list": lst})
    for fam, src in progs[120:]:
        rest.append({"kind": "prog", "fam": fam, "src": src})
    seen, allx = set(), []
    for sp in core + rest:
        k = item_id(sp)
        if k not in seen:
            seen.add(k)
            allx.append(sp)
    if tier == "thorough":
        return allx
    return slice_quick(allx, seed, len(core), 2400)


_REC = None


def worker_init():
    """observation point: record (input, output) of translate_ast's simplify_logic call."""
    global _REC
    import qlasskit.ast2logic.t_ast as T

    if getattr(T.simplify_logic, "_qv", False):
        return
    orig = T.simplify_logic
    _REC = []

    def rec(e, **kw):
        r = orig(e, **kw)
        _REC.append((e, r))
        return r

    rec._qv = True
    T.simplify_logic = rec


def _inputs_of(exprs):
    defined, ins = set(), []
    for s, e in exprs:
        for x in sorted(getattr(e, "free_symbols", set()), key=lambda y: y.name):
            if x.name not in defined and x.name not in ins:
                ins.append(x.name)
        defined.add(s.name)
    return ins


def check_item(spec):
    from sympy import Symbol
    from qlasskit.boolopt import BoolOptimizerProfile

    st = Stats()
    res = {"status": "ok", "findings": [], "nontrivial": False}
    simp_pairs = []
    if spec["kind"] == "prog":
        from qlasskit import qlassf

        if _REC is not None:
            del _REC[:]
        try:
            qf = qlassf(spec["src"], to_compile=False, bool_optimizer=BoolOptimizerProfile([]))
            raw = qf.expressions
        except Exception as e:
            res.update(status="skip", note="front-end raises %s" % type(e).__name__)
            return res
        ins = [b for a in qf.args for b in a.bitvec]
        simp_pairs = list(_REC or [])
    else:
        raw = [(Symbol(n), sx(t)) for n, t in spec["list"]]
        ins = _inputs_of(raw)
    try:
        env0 = boolq.seq_env(raw, ins)
    except boolq.FreeSymbol as e:
        res.update(status="skip", note="input list itself has a free symbol %s (C01/C07's concern)" % e)
        return res
    except boolq.Unsupported as e:
        res.update(status="skip", note="unsupported term %s" % e)
        return res
    # the return bits are the declared ones (a local called _retval is an intermediate)
    declared = set(qf.returns.bitvec) if spec["kind"] == "prog" else None
    is_ret = lambda nm: (nm in declared) if declared is not None else (nm == "_ret" or nm.startswith("_ret."))
    rets = []
    for s, e in raw:
        if is_ret(s.name) and s.name not in rets:
            rets.append(s.name)
    s = z3.Solver()
    s.set("rlimit", RLIMIT)
    res["nontrivial"] = any(not z3.is_true(z3.simplify(env0[r])) and not z3.is_false(z3.simplify(env0[r])) for r in rets)
    has_inter = len(raw) > len(rets)
    # translate_ast's simplify step (observed)
    for e_in, e_out in simp_pairs:
        try:
            a = boolq.s2z(e_in[1], env0_sym(ins, e_in[1]))
            b = boolq.s2z(e_out[1], env0_sym(ins, e_out[1]))
        except Exception:
            continue
        if st.check(s, z3.Xor(a, b)) == "sat":
            res["findings"].append({"kind": "meaning:translate_ast.simplify_logic", "what": "%s -> %s" % (e_in, e_out), "cex": {}, "replayed": True})
    for pname, prof in profiles().items():
        src_list = raw
        try:
            out = prof.apply(list(src_list))
        except Exception as e:
            res["findings"].append({"kind": "raises:" + pname, "what": "%s raises %s: %s" % (pname, type(e).__name__, str(e)[:100]), "cex": {}, "replayed": True})
            continue
        out_rets = [x.name for x, _ in out if is_ret(x.name)]
        lost = [r for r in rets if r not in out_rets]
        if lost:
            res["findings"].append({"kind": "lost-ret:" + pname, "what": "return symbols %s missing after %s" % (lost, pname), "cex": {}, "replayed": True})
        try:
            env1 = boolq.seq_env(out, ins)
        except boolq.FreeSymbol as e:
            res["findings"].append({"kind": "free-symbol:" + pname, "what": "%s: output uses symbol %s before/without definition; output=%s" % (pname, e, str(out)[:200]), "cex": {}, "replayed": True})
            continue
        except boolq.Unsupported as e:
            res.update(status="inconclusive", note="unsupported term after %s: %s" % (pname, e))
            continue
        diffs = [z3.Xor(env0[r], env1[r]) for r in rets if r in env1]
        if not diffs:
            continue
        v = st.check(s, z3.Or(*diffs))
        if v == "sat":
            asg = boolq.model_bools(s.model(), ins)
            try:
                w0 = boolq.eval_exprs_concrete(raw, asg)
                w1 = boolq.eval_exprs_concrete(out, asg)
                bad = [r for r in rets if r in w1 and w0[r] != w1[r]]
            except boolq.FreeSymbol:
                bad = []
            if bad:
                res["findings"].append({"kind": "meaning:" + pname, "what": "%s changes %s on %s: before=%s after=%s; in=%s out=%s" % (pname, bad, asg, [w0[r] for r in bad], [w1[r] for r in bad], str(raw)[:200], str(out)[:200]), "cex": {"inputs": asg}, "replayed": True})
            else:
                res.update(status="inconclusive", note="counterexample for %s did not reproduce with sympy evaluation" % pname)
        elif v != "unsat":
            res.update(status="inconclusive", note="solver %s on %s" % (v, pname))
    # sensitivity: negate one return expression of the default output -> must be sat
    if int(item_id(spec), 16) % 8 == 0 and rets and res["nontrivial"]:
        v = st.check(s, z3.Xor(env0[rets[0]], z3.Not(env0[rets[0]])))
        res["negctl"] = v == "sat"
    return st.into(res)


def env0_sym(ins, e):
    env = {b: z3.Bool(b) for b in ins}
    for x in getattr(e, "free_symbols", set()):
        env.setdefault(x.name, z3.Bool(x.name))
    return env


def coverage(specs, results):
    import collections

    c = collections.Counter(r["status"] for r in results)
    fam = collections.Counter(sp.get("fam", "").split(":")[0] for sp in specs)
    judged = [r for r in results if r["status"] == "ok"]
    samples = []
    for sp, r in zip(specs, results):
        if r["status"] == "ok" and len(samples) < 4 and (len(samples) % 2 == 0) == (sp["kind"] == "synth"):
            samples.append({"item": sp.get("list") or sp.get("src"), "verdict": "all 9 profiles equivalent on every assignment" if not r["findings"] else [f["kind"] for f in r["findings"]]})
    return {
        "programs": len(judged),
        "disagreements_checked": sum(1 for r in results if r["findings"]),
        "samples": samples,
        "status_counts": dict(c),
        "families": dict(fam),
        "profiles_per_item": 9,
        "distinct_nontrivial": sum(1 for r in judged if r.get("nontrivial")),
        "evaluations": len(results),
        "rule": "one item = one definition list, pushed through 9 profiles; non-trivial = some return symbol is not a constant function",
    }


if __name__ == "__main__":
    boolq.selftest()
    sys.exit(main_for(sys.modules[__name__]))
