"""C05 — values survive the encode -> circuit -> decode round trip.

One symbolic pipeline per program (engines C + A + B):
  typed symbolic argument values v  --real encode_input (symx)-->  symbolic bit string
  --qubit i := char n-1-i-->  symbolic run of the real compiled gate list (BoolEq)
  --char m-1-j := output_qubits[j]-->  real decode_output (symx)  -->  high-level value
  compared by z3 with RefSem's f(v) on every input where python neither raises nor overflows.
Localised obligations (encode string vs convention, qubit lists, decode vs convention) are
discharged separately so that a failure names the link that broke.
"""
import sys
import typing

import z3

from .. import boolq, circ, corpus, refsem, symx
from ..common import Stats, item_id, main_for, slice_quick

PID = "C05"
LEVEL = "translation_validation"
ITEM_CAP = {"quick": 120, "thorough": 300}
FUNCS = [
    "qlasskit.qlassfun.QlassF.{encode_input,decode_output,input_qubits,output_qubits}",
    "qlasskit.types.{format_outcome,interpret_as_qtype}, Qtype.to_bin/to_bool/from_bool of every argument/return type used",
    "qlasskit.qcircuit.qcircuitwrapper.QCircuitWrapper.decode_counts (concrete frame check only)",
    "qlasskit.compiler.internalcompiler.InternalCompiler.compile (gate list interpreted symbolically)",
]
BOUNDS = {
    "quick": "signature-diverse corpus (1-3 arguments; bool/Qint/Qfixed/Qchar/Tuple/nested Tuple/Qlist/Qmatrix; returns of each kind): core + seed slice; <= 12 input bits; default optimizer with uncompute on for the signature core; both profiles, uncompute on/off and compile histories for the seed slice; <= 8 bits per scalar argument; all argument values symbolic; symx path budget 600",
    "thorough": "whole corpus incl. both optimizer profiles",
}
OUTSIDE = "int and short (non full-length) readings passed to decode_output; programs enumerated; programs whose circuit is a listed C02/C03 known finding still count here if the round trip breaks"
ASSUMPTIONS = [
    "qubit initialisation / measurement convention: character n-1-i of a bit string is qubit i (qiskit's), the reading lists output_qubits[0] as its rightmost character",
    "RefSem for f(v); symx shims (see C09) validated by differential concretisation on every item",
]


def progs():
    P = [p for p in corpus.u_ctl() if "ctl-fixed" not in p[0] or True]
    extra = [
        ("sig", "def prog(a: bool) -> bool:\n    return not a\n"),
        ("sig", "def prog(a: bool, b: bool, c: bool) -> bool:\n    return (a and b) ^ c\n"),
        ("sig", "def prog(a: Qint[2], b: Qint[4]) -> Qint[4]:\n    return a + b\n"),
        ("sig", "def prog(a: Qint[4], b: Qint[2]) -> Qint[4]:\n    return a - b\n"),
        ("sig", "def prog(a: Qint[3], b: bool, c: Qint[2]) -> Qint[3]:\n    return (a + c) if b else a\n"),
        ("sig", "def prog(a: Qint[2], b: Qint[2]) -> Tuple[Qint[2], Qint[2]]:\n    return (b, a)\n"),
        ("sig", "def prog(a: Qint[2], b: bool) -> Tuple[bool, Qint[2], bool]:\n    return (b, a + 1, not b)\n"),
        ("sig", "def prog(a: Tuple[Qint[2], Tuple[bool, Qint[2]]]) -> Qint[2]:\n    return (a[0] + a[1][1]) if a[1][0] else a[0]\n"),
        ("sig", "def prog(a: Tuple[bool, Qint[2]], b: Tuple[Qint[2], bool]) -> Tuple[Qint[2], bool]:\n    return (a[1] + b[0], a[0] and b[1])\n"),
        ("sig", "def prog(a: Qlist[Qint[2], 2], b: bool) -> Qlist[Qint[2], 2]:\n    return [a[1], a[0]] if b else [a[0], a[1]]\n"),
        ("sig", "def prog(a: Qmatrix[bool, 2, 2]) -> Qmatrix[bool, 2, 2]:\n    return [[a[1][1], a[1][0]], [a[0][1], a[0][0]]]\n"),
        ("sig", "def prog(a: Qmatrix[bool, 2, 2]) -> Qlist[bool, 2]:\n    return [a[0][0] and a[0][1], a[1][0] or a[1][1]]\n"),
        ("sig", "def prog(a: Qchar) -> Qchar:\n    return a\n"),
        ("sig", "def prog(a: Qchar, b: bool) -> Qchar:\n    return a if b else 'x'\n"),
        ("sig", "def prog(a: Qfixed[1,2]) -> Qfixed[1,2]:\n    return a\n"),
        ("sig", "def prog(a: Qfixed[2,2], b: Qfixed[2,2]) -> Qfixed[2,2]:\n    return a + b\n"),
        ("sig", "def prog(a: Qfixed[1,3], b: bool) -> Qfixed[1,3]:\n    return a if b else 0.5\n"),
        ("sig", "def prog(a: Qint[2]) -> Qint[8]:\n    return a\n"),
        ("sig", "def prog(a: Qint[8]) -> Qint[2]:\n    return a\n"),
        ("sig", "def prog(a: Qint[4]) -> Tuple[bool, bool]:\n    return (a[0], a[3])\n"),
        ("sig", "def prog(a: Qint[2], b: Qint[2]) -> Tuple[bool, bool]:\n    return (a > b, a > b)\n"),
        ("sig", "def prog(a: Qint[2]) -> Tuple[Qint[2], Qint[2]]:\n    return (a, a)\n"),
        ("sig", "def prog(a: Tuple[Qint[2], bool]) -> Tuple[Qint[2], bool]:\n    b = a\n    return b\n"),
        ("sig", "def prog(a: Qint[2], b: Qint[2], c: Qint[2]) -> Qint[6]:\n    return a * b + c\n"),
        ("sig", "def prog(a: Qint[5]) -> Qint[5]:\n    return a + 1\n"),
        ("sig", "def prog(a: Qint[7], b: bool) -> Qint[7]:\n    return a if b else 3\n"),
        ("sig", "def prog(a: bool) -> Qint[4]:\n    return 9 if a else 6\n"),
        ("sig", "def prog(a: Qint[2], b: bool) -> Tuple[Qmatrix[bool, 2, 2], Qint[2]]:\n    return ([[a[0], a[1]], [b, not b]], a)\n"),
        ("sig", "def prog(a: Tuple[Tuple[Tuple[bool, Qint[2]], bool], bool]) -> Tuple[Tuple[Tuple[bool, Qint[2]], bool], bool]:\n    return a\n"),
        ("sig", "def prog(a: bool, b: Qint[2]) -> Tuple[Tuple[Tuple[bool, Qint[2]], bool], Qint[2]]:\n    return (((a, b), not a), b + 1)\n"),
        ("sig", "def prog(a: Tuple[Tuple[Qint[2], bool], Tuple[bool, Qint[2]]]) -> Tuple[Qint[2], Tuple[Tuple[bool, bool], Qint[2]]]:\n    return (a[0][0], ((a[0][1], a[1][0]), a[1][1]))\n"),
        ("sig", "def prog(a: bool, b: bool) -> bool:\n    a = a and b\n    return a\n"),
        ("sig", "def prog(a: Qint[2], b: Qint[2]) -> Qint[2]:\n    a = a + b\n    a += 1\n    return a\n"),
        ("sig", "def prog(a: bool, b: bool, c: bool) -> Tuple[bool, bool]:\n    b = b ^ a\n    c = c and b\n    return (c, b)\n"),
        ("sig", "def prog(a: Qfixed[1,6]) -> Qfixed[1,6]:\n    return a\n"),
        ("sig", "def prog(a: Tuple[Qfixed[3,6], bool]) -> Tuple[bool, Qfixed[3,6]]:\n    return (a[1], a[0])\n"),
        ("sig", "def prog(a: Qfixed[2,4], b: bool) -> Qfixed[2,4]:\n    return a if b else 1.25\n"),
        ("sig", "def prog(a: Qchar, b: Qchar) -> bool:\n    return a == b\n"),
        ("sig", "def prog(a: Tuple[Qchar, bool]) -> Qchar:\n    return a[0] if a[1] else 'k'\n"),
        ("sig", "def prog(a: Qlist[bool, 5]) -> Qint[4]:\n    c = 0\n    for x in a:\n        c += 1 if x else 0\n    return c\n"),
        # return bits that are a sub-expression and its negation / share sub-expressions (distinct
        # output qubits are needed even when the compiler could reuse one)
        ("sig", "def prog(a: bool, b: bool) -> Tuple[bool, bool]:\n    return (not (a and b), a and b)\n"),
        ("sig", "def prog(a: Qint[2], b: Qint[2]) -> Tuple[bool, bool]:\n    return (a <= b, a > b)\n"),
        ("sig", "def prog(a: bool, b: bool, c: bool) -> Tuple[bool, bool, bool]:\n    return ((a or b) and c, not ((a or b) and c), a or b)\n"),
        ("sig", "def prog(a: Qint[2], b: Qint[2]) -> Tuple[bool, bool, bool]:\n    return (a == b, a != b, a == b)\n"),
        ("sig", "def prog(a: Qint[2], b: bool, c: bool) -> Tuple[Qint[2], bool, bool]:\n    return (a, b, c)\n"),
        ("sig", "def prog(a: Qint[2], b: bool) -> Tuple[bool, bool, Qint[2], bool]:\n    return (b, a[0], a, not b)\n"),
    ]
    return extra + P


def make_items(tier, seed):
    P = [p for p in progs() if corpus.size_ok(p[1], 16, 80)]
    out = []
    for opt in ("default", "fast"):
        for k, (fam, src) in enumerate(P):
            # quick: the signature core under both profiles, every other program under one of them
            # (alternating), thorough: everything under both
            if tier != "thorough" and fam not in ("sig", "ctl-names", "ctl-alias") and (opt == "fast") != (k % 2 == 1):
                continue
            out.append({"fam": fam, "src": src, "opt": opt, "uncompute": True})
    # the round trip is claimed for every compiler setting: circuits left un-uncomputed, both profiles,
    # and compilations that follow other compilations of the same source (history, see circ.compile_prog)
    # generated programs with container arguments / tuple returns through the whole round trip
    from .. import corpus2

    for fam, src in corpus2.u_prog2(1500 if tier == "thorough" else 500)[100 : (400 if tier == "thorough" else 160)]:
        if corpus.size_ok(src, 12, 90):
            out.append({"fam": "prog2", "src": src, "opt": "default" if len(out) % 2 else "fast", "uncompute": True})
    stale = corpus.u_stale(full=True)[:: (8 if tier == "thorough" else 24)] + corpus.u_selfif(full=True)[:: (12 if tier == "thorough" else 48)]
    k = 0
    for fam, src in [p for p in P if p[0] != "sig"][:: (1 if tier == "thorough" else 3)] + stale:
        k += 1
        out.append({"fam": "cfg:" + fam, "src": src, "opt": "fast" if k % 2 else "default", "uncompute": False, "history": k % 3 == 0})
        if k % 4 == 0:
            out.append({"fam": "cfg:" + fam, "src": src, "opt": "fast", "uncompute": True, "history": True})
    if tier == "thorough":
        return out
    core = [sp for sp in out if sp["fam"] in ("sig", "cfg:ctl-stale", "ctl-names", "ctl-alias")]
    rest = [sp for sp in out if sp not in core]
    return slice_quick(core + rest, seed, len(core), 120)


# ---------------------------------------------------------------- twin mirroring
def to_twin_type(tw, t):
    if t is bool:
        return bool
    if hasattr(t, "BIT_SIZE"):
        return getattr(tw.types, t.__name__)
    args = typing.get_args(t)
    return typing.Tuple[tuple(to_twin_type(tw, a) for a in args)]


def mirror(tw, qf):
    """a QlassF of the *twin* class describing the same function (args/returns/circuit)."""
    Arg = tw.ast2logic.typing.Arg
    targs = [Arg(a.name, to_twin_type(tw, a.ttype), list(a.bitvec)) for a in qf.args]
    tret = Arg(qf.returns.name, to_twin_type(tw, qf.returns.ttype), list(qf.returns.bitvec))
    m = tw.qlassfun.QlassF(qf.name, None, targs, tret, qf.expressions)
    if hasattr(qf, "_qcircuit"):
        m._qcircuit = qf.circuit()
    return m


def sym_value(tw, ttype, names, base):
    """symbolic high-level value of (twin) type ttype over the z3 Bools named by `names`"""
    if ttype is bool:
        return symx.SxBool(z3.Bool(next(names)))
    if hasattr(ttype, "BIT_SIZE"):
        w = ttype.BIT_SIZE
        bits = [z3.Bool(next(names)) for _ in range(w)]
        nm = ttype.__name__
        if nm.startswith("Qint"):
            return ttype(symx.SxInt(z3.Sum([z3.If(b, 2 ** k, 0) for k, b in enumerate(bits)])))
        if nm == "Qchar":
            return ttype(symx.SxChar(z3.Sum([z3.If(b, 2 ** k, 0) for k, b in enumerate(bits)])))
        i, f = ttype.BIT_SIZE_INTEGER, ttype.BIT_SIZE_FRACTIONAL
        sc = z3.Sum([z3.If(bits[k], 2 ** (f + k), 0) for k in range(i)] + [z3.If(bits[i + j], 2 ** (f - 1 - j), 0) for j in range(f)])
        return ttype(symx.SxReal(z3.ToReal(sc) / (2 ** f)))
    return tuple(sym_value(tw, a, names, base) for a in typing.get_args(ttype))


def value_bits_z3(v, ttype):
    """bits (z3 Bool terms, interface order) of a decoded high-level value"""
    if ttype is bool:
        return [symx.tobool(v)]
    if hasattr(ttype, "BIT_SIZE"):
        w = ttype.BIT_SIZE
        b = v._sx_base if hasattr(v, "_sx_base") else v
        nm = ttype.__name__
        if nm.startswith("Qint") or nm == "Qchar":
            t = b.t if isinstance(b, (symx.SxInt, symx.SxChar)) else z3.IntVal(ord(b) if isinstance(b, str) else int(b))
            return [((t / (2 ** k)) % 2) == 1 for k in range(w)], t
        i, f = ttype.BIT_SIZE_INTEGER, ttype.BIT_SIZE_FRACTIONAL
        t = symx.toreal(b) * (2 ** f)
        return None, t
    out = []
    for x, a in zip(v, typing.get_args(ttype)):
        out.append(value_bits_z3(x, a))
    return out


def ref_scalar_terms(ref):
    """RefSem's return as per-leaf integer terms in interface order: list of (kind, z3 Int, demand)"""
    out = []
    want = list(ref["want"])

    def walk(t):
        nonlocal want
        if t[0] == "bool":
            (bit, cond) = want.pop(0)
            out.append(("bool", bit, cond))
        elif t[0] in ("int", "char"):
            w = refsem.width(t)
            chunk, want = want[:w], want[w:]
            val = z3.Sum([z3.If(b, 2 ** k, 0) for k, (b, _) in enumerate(chunk)])
            out.append(("int", val, z3.And(*[c for _, c in chunk])))
        elif t[0] == "fixed":
            i, f = t[1], t[2]
            chunk, want = want[: i + f], want[i + f :]
            val = z3.Sum([z3.If(chunk[k][0], 2 ** (f + k), 0) for k in range(i)] + [z3.If(chunk[i + j][0], 2 ** (f - 1 - j), 0) for j in range(f)])
            out.append(("fixed", val, z3.And(*[c for _, c in chunk])))
        else:
            for x in t[1]:
                walk(x)

    walk(ref["ret_type"])
    return out


def leaf_terms(v, ttype):
    """decoded value -> list of (kind, term) per leaf, same order as ref_scalar_terms"""
    if ttype is bool:
        return [("bool", symx.tobool(v))]
    if hasattr(ttype, "BIT_SIZE"):
        b = v._sx_base if hasattr(v, "_sx_base") else v
        nm = ttype.__name__
        if nm.startswith("Qint"):
            return [("int", symx.toint(b))]
        if nm == "Qchar":
            return [("int", b.t if isinstance(b, symx.SxChar) else z3.IntVal(ord(b)))]
        return [("fixed", symx.toreal(b) * (2 ** ttype.BIT_SIZE_FRACTIONAL))]
    if not isinstance(v, tuple):
        raise TypeError("decoded value %r is not a tuple for %s" % (v, ttype))
    out = []
    for x, a in zip(v, typing.get_args(ttype)):
        out += leaf_terms(x, a)
    return out


def worker_init():
    symx.twin()


def check_item(spec):
    st = Stats()
    res = {"status": "ok", "findings": [], "nontrivial": False, "cls": ""}
    qf, why = circ.compile_prog(spec)
    if qf is None:
        res.update(cls="lib-reject", note=why)
        return res
    if circ.has_quantum(qf):
        res.update(cls="hybrid")
        return res
    try:
        ref = refsem.reference(spec["src"])
    except refsem.Unsupported as e:
        res.update(cls="ref-unsupported", note=str(e))
        return res
    except refsem.Undef:
        res.update(cls="ref-undef")
        return res
    qc = qf.circuit()
    ins = circ.input_bits(qf)
    n_in = len(ins)
    if ins != ref["argbits"]:
        res.update(cls="argbits-differ")
        return res
    # --- (2) qubit lists
    if list(qf.input_qubits) != list(range(n_in)):
        res["findings"].append({"kind": "input-qubits", "what": "input_qubits=%s, expected 0..%d" % (qf.input_qubits, n_in - 1), "cex": {}, "replayed": True})
    try:
        oq = list(qf.output_qubits)
    except Exception as e:
        res["findings"].append({"kind": "output-qubits-raises", "what": "output_qubits raises %s(%s)" % (type(e).__name__, e), "cex": {}, "replayed": True})
        res["cls"] = "judged"
        return st.into(res)
    if len(oq) != len(qf.returns.bitvec) or any((not isinstance(i, int)) or i < 0 or i >= qc.num_qubits for i in oq):
        res["findings"].append({"kind": "output-qubits-range", "what": "output_qubits=%s for %d return bits / %d qubits" % (oq, len(qf.returns.bitvec), qc.num_qubits), "cex": {}, "replayed": True})
        res["cls"] = "judged"
        return st.into(res)
    tw = symx.twin()
    m = mirror(tw, qf)
    s = z3.Solver()
    s.set("rlimit", 100_000_000)
    try:
        env = boolq.seq_env(qf.expressions, ins)
    except (boolq.FreeSymbol, boolq.Unsupported) as e:
        res.update(cls="expressions-unreadable", note=str(e))
        return res
    # shared output qubits must always carry the same value
    for j1 in range(len(oq)):
        for j2 in range(j1 + 1, len(oq)):
            if oq[j1] == oq[j2]:
                r1, r2 = qf.returns.bitvec[j1], qf.returns.bitvec[j2]
                if st.check(s, z3.Xor(env[r1], env[r2])) == "sat":
                    asg = boolq.model_bools(s.model(), ins)
                    res["findings"].append({"kind": "shared-output-qubit", "what": "return bits %s and %s share qubit %d but differ on %s" % (r1, r2, oq[j1], asg), "cex": {"inputs": asg}, "replayed": True})
    # --- the symbolic pipeline
    names = iter(ins)
    base = []
    vals = [sym_value(tw, a.ttype, names, base) for a in m.args]
    m_out = len(oq)
    rterms = ref_scalar_terms(ref)
    nund = z3.Not(ref["undef"])

    def pipeline():
        sin = m.encode_input(*vals)
        if len(sin) != n_in:
            raise AssertionError("encode_input length %d != %d input bits" % (len(sin), n_in))
        chars = list(sin) if not isinstance(sin, str) else list(sin)
        init = []
        for i in range(n_in):
            ch = chars[n_in - 1 - i]
            init.append((ch.t == 49) if isinstance(ch, symx.SxChar) else z3.BoolVal(ch == "1"))
        init += [z3.BoolVal(False)] * (qc.num_qubits - n_in)
        fin = boolq.simcirc(qc.gates, init)
        reading = [None] * m_out
        for j, q in enumerate(oq):
            reading[m_out - 1 - j] = symx.SxChar(z3.If(fin[q], 49, 48))
        out = m.decode_output(symx.SxStr(reading))
        enc_ok = z3.And(*[init[i] == z3.Bool(ins[i]) for i in range(n_in)]) if n_in else z3.BoolVal(True)
        return enc_ok, out

    paths, aborted = symx.explore(pipeline, base=base, stats=st, maxpaths=600)
    res["paths"] = len(paths)
    if aborted or not paths:
        res.update(status="inconclusive", note="symx: %d aborted / %d completed paths" % (aborted, len(paths)), cls="judged")
        return st.into(res)
    tret = m.returns.ttype
    for pc, extra, r in paths:
        if r[0] == "exc":
            s.push()
            s.add(*pc, *extra, nund)
            v = st.check(s)
            s.pop()
            if v == "sat":
                if replay_exc(qf, ref, s):
                    res["findings"].append({"kind": "roundtrip-raises", "what": "encode/decode raises %s: %s" % (type(r[1]).__name__, str(r[1])[:120]), "cex": {}, "replayed": True})
                else:
                    res.update(status="inconclusive", note="symbolic run raised %s: %s, the real objects do not on the same input (modelling gap)" % (type(r[1]).__name__, str(r[1])[:80]))
            continue
        enc_ok, out = r[1]
        # (1) encode string spells the argument bits
        s.push()
        s.add(*pc, *extra)
        v = st.check(s, z3.Not(enc_ok))
        if v == "sat":
            f = replay(qf, ref, s.model(), "encode")
            if f:
                res["findings"].append(f)
            else:
                res.update(status="inconclusive", note="encode counterexample did not reproduce")
            s.pop()
            break
        # (5) decoded value == f(v)
        try:
            lt = leaf_terms(out, tret)
        except Exception as e:
            res["findings"].append({"kind": "decode-shape", "what": "decode_output returned %r: %s" % (out, e), "cex": {}, "replayed": True})
            s.pop()
            break
        if len(lt) != len(rterms):
            res.update(status="inconclusive", note="leaf count mismatch")
            s.pop()
            break
        bad = []
        for (k1, a), (k2, b, cond) in zip(lt, rterms):
            if k2 == "bool":
                bad.append(z3.And(cond, nund, z3.Xor(a, b)))
            elif k2 == "int":
                bad.append(z3.And(cond, nund, a != b))
            else:
                bad.append(z3.And(cond, nund, a != z3.ToReal(b)))
        v = st.check(s, z3.Or(*bad))
        if v == "sat":
            f = replay(qf, ref, s.model(), "roundtrip")
            if f:
                res["findings"].append(f)
            else:
                res.update(status="inconclusive", note="round-trip counterexample did not reproduce on the real objects")
            s.pop()
            break
        elif v != "unsat":
            res.update(status="inconclusive", note="solver " + v)
        v2 = st.check(s, z3.Or(*[z3.And(c, nund) for _, _, c in rterms]))
        res["nontrivial"] = res["nontrivial"] or v2 == "sat"
        s.pop()
    # frame condition (concrete): decoding a list reading neither changes the caller's list nor
    # depends on how often it is decoded
    if not res["findings"] and res["status"] == "ok":
        pat = [(j * 5 + 1) % 3 == 0 for j in range(m_out)]
        lst = list(pat)
        try:
            d1 = conc_val(qf.decode_output(lst))
            d2 = conc_val(qf.decode_output(lst))
            d3 = conc_val(qf.decode_output("".join("1" if b else "0" for b in pat)))
            from .c09 import conc as _c

            if lst != pat:
                res["findings"].append({"kind": "reading-modified", "what": "decode_output changed the list reading it was given: %s -> %s" % (pat, lst), "cex": {}, "replayed": True})
            elif _c(d1) != _c(d2):
                res["findings"].append({"kind": "reading-modified", "what": "decoding the same list reading twice gives %r then %r" % (d1, d2), "cex": {}, "replayed": True})
            elif _c(d1) != _c(d3):
                res["findings"].append({"kind": "list-vs-string", "what": "reading %s decodes to %r as a list of bools but to %r as a string" % (pat, d1, d3), "cex": {}, "replayed": True})
        except Exception as e:
            pass
    # differential concretisation of the twin on two concrete inputs
    if not res["findings"] and res["status"] == "ok":
        dz = differential(tw, m, qf, ref)
        if dz:
            res.update(status="inconclusive", note=dz)
    res["cls"] = "judged"
    return st.into(res)


def concrete_values(ref, model):
    from .. import frontend

    return frontend.model_values(model, ref)


def to_lib_value(qf_type, v):
    """python value -> instance of the real library type"""
    if qf_type is bool:
        return bool(v)
    if hasattr(qf_type, "BIT_SIZE"):
        return qf_type(v)
    return tuple(to_lib_value(a, x) for a, x in zip(typing.get_args(qf_type), v))


def real_roundtrip(qf, vals):
    """the property's own procedure on the real objects, concretely"""
    from qlasskit.qcircuit import CNotSim

    libvals = [to_lib_value(a.ttype, v) for a, v in zip(qf.args, vals)]
    sin = qf.encode_input(*libvals)
    qc = qf.circuit()
    n_in = len(qf.input_qubits)
    init = [False] * qc.num_qubits
    for i in range(n_in):
        init[i] = sin[len(sin) - 1 - i] == "1"
    fin = boolq.simcirc_concrete(qc.gates, init)
    oq = qf.output_qubits
    reading = "".join("1" if fin[q] else "0" for q in reversed(oq))
    return sin, reading, qf.decode_output(reading)


def replay(qf, ref, model, what):
    vals = concrete_values(ref, model)
    try:
        sin, reading, got = real_roundtrip(qf, vals)
    except Exception as e:
        return {"kind": "roundtrip-raises", "what": "args %s: real encode/run/decode raises %s: %s" % (vals, type(e).__name__, str(e)[:100]), "cex": {"args": repr(vals)}, "replayed": True}
    if what == "encode":
        from .. import frontend

        want = frontend.value_bits(vals, ref)
        exp = "".join("1" if want[b] else "0" for b in reversed(ref["argbits"]))
        if sin != exp:
            return {"kind": "encode-order", "what": "args %s: encode_input gives %s, bit convention gives %s" % (vals, sin, exp), "cex": {"args": repr(vals)}, "replayed": True}
        return None
    try:
        pv = qf.original_f(*vals)
    except Exception:
        return None
    gb = refsem.python_value_bits(conc_val(got), ref["ret_type"])
    pb = refsem.python_value_bits(pv, ref["ret_type"])
    if gb != pb:
        return {"kind": "roundtrip-wrong", "what": "args %s: encode=%s reading=%s decodes to %r but f(v)=%r" % (vals, sin, reading, got, pv), "cex": {"args": repr(vals)}, "replayed": True}
    return None


def replay_exc(qf, ref, s):
    try:
        vals = concrete_values(ref, s.model())
        real_roundtrip(qf, vals)
        return False
    except Exception:
        return True


def conc_val(x):
    if isinstance(x, tuple):
        return tuple(conc_val(y) for y in x)
    if isinstance(x, bool):
        return x
    if isinstance(x, float):
        return float(x)
    if isinstance(x, str):
        return str(x)
    if isinstance(x, int):
        return int(x)
    return x


def differential(tw, m, qf, ref):
    import random

    rnd = random.Random(len(ref["argbits"]))
    for _ in range(2):
        asg = {b: rnd.random() < 0.5 for b in ref["argbits"]}
        mdl_vals = []
        names = iter(ref["argbits"])

        def val(t):
            if t[0] == "bool":
                return asg[next(names)]
            if t[0] in ("int", "char", "fixed"):
                bits = [asg[next(names)] for _ in range(refsem.width(t))]
                if t[0] == "int":
                    return sum(1 << k for k, b in enumerate(bits) if b)
                if t[0] == "char":
                    return chr(sum(1 << k for k, b in enumerate(bits) if b))
                i, f = t[1], t[2]
                sc = sum(1 << (f + k) for k in range(i) if bits[k]) + sum(1 << (f - 1 - j) for j in range(f) if bits[i + j])
                return sc / float(2 ** f)
            return tuple(val(x) for x in t[1])

        vals = [val(t) for _, t in ref["args"]]
        try:
            a = qf.encode_input(*[to_lib_value(x.ttype, v) for x, v in zip(qf.args, vals)])
            b = m.encode_input(*[to_lib_value(x.ttype, v) for x, v in zip(m.args, vals)])
        except Exception as e:
            return None
        if str(a) != str(b):
            return "differential concretisation: twin encode_input %s != real %s on %s" % (b, a, vals)
        rd = "".join(rnd.choice("01") for _ in range(len(qf.returns.bitvec)))
        try:
            x = conc_val(qf.decode_output(rd))
            y = conc_val(m.decode_output(rd))
        except Exception:
            return None
        from .c09 import conc

        if conc(x) != conc(y):
            return "differential concretisation: twin decode_output %r != real %r on %s" % (y, x, rd)
    return None


def coverage(specs, results):
    import collections

    cls = collections.Counter(r.get("cls", "") for r in results)
    judged = [r for r in results if r.get("cls") == "judged" and r["status"] == "ok"]
    samples = []
    for sp, r in zip(specs, results):
        if r.get("cls") == "judged" and len(samples) < 4 and len(samples) * 7 <= specs.index(sp):
            samples.append({"src": sp["src"], "paths": r.get("paths"), "verdict": "decode(run(encode(v))) == f(v) for all v" if not r["findings"] else [f["kind"] for f in r["findings"]]})
    return {
        "programs": len(judged),
        "disagreements_checked": sum(1 for r in results if r["findings"]),
        "samples": samples,
        "classes": dict(cls),
        "symx_paths": sum(r.get("paths", 0) for r in results),
        "distinct_nontrivial": sum(1 for r in judged if r.get("nontrivial")),
        "evaluations": len(results),
        "rule": "one item = (program, profile); the whole encode->circuit->decode pipeline is one symbolic run; non-trivial = satisfiable demand",
    }


if __name__ == "__main__":
    boolq.selftest()
    sys.exit(main_for(sys.modules[__name__]))
