"""C07 — calling one compiled function from another is function composition."""
import ast
import sys

from .. import boolq, frontend, refsem
from ..common import Stats, item_id, main_for, slice_quick

PID = "C07"
LEVEL = "translation_validation"
ITEM_CAP = {"quick": 60, "thorough": 120}
FUNCS = [
    "qlasskit.qlassfun.qlassf(defs=...) / QlassF.to_logicfun",
    "qlasskit.ast2logic.env.Env.bind_function (alpha-renaming + compression)",
    "qlasskit.ast2logic.t_expression.translate_expression (Known function: substitution of actuals for formals)",
    "qlasskit.ast2logic.t_statement.translate_statement (inline FunctionDef)",
    "qlasskit.algorithms.qalgorithm.oraclize",
]
BOUNDS = "generated family compose-rand (400 caller/callee(s) triples: generated callees g, k with scalar/tuple/list formals, generated multi-statement callers calling them with variable, element, compound, literal actuals; both mechanisms) + callee x call-shape x naming x mechanism universe below (~500 pairs), both optimizer profiles for the caller; every caller argument value symbolic"
OUTSIDE = "caller/callee texts are enumerated; recursion and callees with parameters are not exercised"
ASSUMPTIONS = [
    "RefSem interprets a call by interpreting the callee's own AST on the actual values (coerced to the declared formal types)",
    "'callee unchanged' is a frame condition checked by comparing fingerprints (name, args, returns, expressions) before and after - not a solver query",
]

Q2 = "Qint[2]"
CALLEES = {
    "nb": ("def g(x: bool) -> bool:\n    return not x\n", ["bool"], "bool"),
    "bb": ("def g(x: bool, y: bool) -> bool:\n    return x and not y\n", ["bool", "bool"], "bool"),
    "ii": ("def g(x: Qint[2]) -> Qint[2]:\n    return x + 1\n", ["int"], "int"),
    "ib": ("def g(x: Qint[2]) -> bool:\n    return x > 1\n", ["int"], "bool"),
    "iii": ("def g(x: Qint[2], y: Qint[2]) -> Qint[2]:\n    return x - y\n", ["int", "int"], "int"),
    "iib": ("def g(x: Qint[2], y: Qint[2]) -> bool:\n    return x > y\n", ["int", "int"], "bool"),
    "tb": ("def g(x: Tuple[bool, bool]) -> bool:\n    return x[0] and not x[1]\n", ["tbb"], "bool"),
    "ti": ("def g(x: Tuple[Qint[2], bool]) -> Qint[2]:\n    return (x[0] + 1) if x[1] else x[0]\n", ["tib"], "int"),
    "bt": ("def g(x: bool) -> Tuple[bool, bool]:\n    return (x, not x)\n", ["bool"], "tbb"),
    "ibi": ("def g(x: Qint[2], y: bool) -> Qint[2]:\n    return (x + 2) if y else x\n", ["int", "bool"], "int"),
    "i4": ("def g(x: Qint[4]) -> Qint[4]:\n    return x + 3\n", ["int4"], "int4"),
    "reassign": ("def g(x: Qint[2], y: Qint[2]) -> Qint[2]:\n    c = x + y\n    d = c + 1\n    c = d + x\n    return c\n", ["int", "int"], "int"),
    "ifupd": ("def g(x: bool, y: bool) -> bool:\n    c = x\n    if y:\n        c = not c\n    d = c and x\n    return d or y\n", ["bool", "bool"], "bool"),
    "augm": ("def g(x: Qint[2], y: bool) -> Qint[2]:\n    c = x\n    c += 1\n    if y:\n        c += x\n    return c\n", ["int", "bool"], "int"),
    "multi": ("def g(x: bool, y: bool) -> bool:\n    z = x ^ y\n    w = z and x\n    return w or not y\n", ["bool", "bool"], "bool"),
}
TY = {"bool": "bool", "int": Q2, "int4": "Qint[4]", "tbb": "Tuple[bool, bool]", "tib": "Tuple[Qint[2], bool]"}
# caller argument pool (name: type)
POOL = [("a", "bool"), ("b", "bool"), ("p", Q2), ("q", Q2), ("t", "Tuple[bool, bool]"), ("u", "Tuple[Qint[2], Qint[2]]"), ("w", "Tuple[Qint[2], bool]")]
ACTUALS = {
    "bool": ["a", "b", "t[0]", "t[1]", "w[1]", "not a", "a and b", "True", "p[0]", "a ^ b"],
    "int": ["p", "q", "u[0]", "u[1]", "w[0]", "p + 1", "p ^ q", "3", "p + q"],
    "int4": ["p", "3", "p + q"],
    "tbb": ["t", "(a, b)", "(b, a)", "(t[1], t[0])"],
    "tib": ["w", "(p, a)", "(u[1], b)"],
}


def used_args(expr):
    names = {n.id for n in ast.walk(ast.parse(expr, mode="eval")) if isinstance(n, ast.Name)}
    return [(n, t) for n, t in POOL if n in names]


def caller_src(expr, ret, extra_args=(), pre=(), name="caller"):
    args = used_args(expr) + list(extra_args)
    if not args:
        args = [("a", "bool")]
    body = list(pre) + ["return " + expr]
    return "def %s(%s) -> %s:\n" % (name, ", ".join("%s: %s" % a for a in args), ret) + "".join("    %s\n" % b for b in body)


def universe():
    items = []
    import itertools

    for cid, (csrc, formals, rt) in CALLEES.items():
        rty = TY[rt]
        exprs = []
        # every combination of actual shapes (bounded product)
        combos = list(itertools.product(*[ACTUALS[f] for f in formals]))
        for c in combos:
            exprs.append("g(%s)" % ", ".join(c))
        # two calls / nested / inside if-expression
        first = [ACTUALS[f][0] for f in formals]
        second = [ACTUALS[f][1] for f in formals]
        c1 = "g(%s)" % ", ".join(first)
        c2 = "g(%s)" % ", ".join(second)
        if rt == "bool":
            exprs += ["%s ^ %s" % (c1, c2), "%s and not %s" % (c1, c2), "%s if a else %s" % (c1, c2)]
        elif rt in ("int", "int4"):
            exprs += ["%s + %s" % (c1, c2), "%s if a else %s" % (c1, c2)]
        if formals == [rt]:
            exprs += ["g(g(%s))" % first[0], "g(g(g(%s)))" % second[0]]
        if rt == "tbb":
            exprs = ["g(%s)" % x for x in ACTUALS["bool"]]
        for e in exprs:
            ret = rty
            for mech in ("defs", "inline"):
                items.append({"fam": "compose-" + cid, "mech": mech, "callee": csrc, "caller": caller_src(e, ret)})
        # naming collisions: a caller variable named like the callee's formal / like the renamed formal
        e0 = exprs[0]
        items.append({"fam": "compose-naming", "mech": "defs", "callee": csrc, "caller": caller_src(e0 + (" ^ x" if rt == "bool" else ""), rty, extra_args=[("x", "bool")] if rt == "bool" else [])})
        items.append({"fam": "compose-naming", "mech": "defs", "callee": csrc, "caller": caller_src(e0 + (" ^ g_x" if rt == "bool" else ""), rty, extra_args=[("g_x", "bool")] if rt == "bool" else [("g_x", "bool")])})
        items.append({"fam": "compose-naming", "mech": "defs", "callee": csrc, "caller": caller_src(e0, rty, pre=["x = %s" % ("not a" if True else "")], extra_args=[("a", "bool")] if "a" not in [n for n, _ in used_args(e0)] else [])})
        items.append({"fam": "compose-naming", "mech": "defs", "callee": csrc, "caller": caller_src(e0, rty, pre=["_ret = a", "y = _ret"], extra_args=[("a", "bool")] if "a" not in [n for n, _ in used_args(e0)] else [])})
    # caller variables named like the callee's renamed formals, passed crosswise
    cross = [
        (CALLEES["bb"][0], "def caller(g_x: bool, g_y: bool) -> bool:\n    return g(g_y, g_x)\n"),
        (CALLEES["bb"][0], "def caller(g_y: bool, a: bool) -> bool:\n    return g(g_y, a)\n"),
        (CALLEES["bb"][0], "def caller(g_y: bool, g_x: bool) -> bool:\n    return g(g_x and g_y, g_x)\n"),
        (CALLEES["iii"][0], "def caller(g_x: Qint[2], g_y: Qint[2]) -> Qint[2]:\n    return g(g_y, g_x)\n"),
        (CALLEES["iib"][0], "def caller(g_y: Qint[2], g_x: Qint[2]) -> bool:\n    return g(g_y, g_x)\n"),
        ("def g(x: bool, y: bool) -> bool:\n    x = x and y\n    return x or y\n", "def caller(a: bool, b: bool) -> bool:\n    return g(a, b)\n"),
        ("def g(g_a: bool, y: bool) -> bool:\n    return g_a and not y\n", "def caller(a: bool, b: bool) -> bool:\n    return g(b, a)\n"),
        ("def g(x: bool, y: bool) -> bool:\n    return x and not y\n", "def caller(x: bool, y: bool) -> bool:\n    return g(y, x)\n"),
    ]
    # containers with more than ten elements: element 1 and elements 10, 11 share a name prefix
    wide = [
        (CALLEES["ii"][0], "def caller(t: Qlist[Qint[2], 12]) -> Qint[2]:\n    return g(t[1])\n"),
        (CALLEES["i4"][0], "def caller(t: Qlist[Qint[2], 12]) -> Qint[4]:\n    return g(t[1])\n"),
        (CALLEES["iii"][0], "def caller(t: Qlist[Qint[2], 12]) -> Qint[2]:\n    return g(t[11], t[1])\n"),
        (CALLEES["bb"][0], "def caller(t: Qlist[bool, 14]) -> bool:\n    return g(t[1], t[12]) ^ t[10]\n"),
        (CALLEES["tb"][0], "def caller(t: Qlist[Tuple[bool, bool], 11]) -> bool:\n    return g(t[1]) ^ g(t[10])\n"),
    ]
    for csrc, caller in cross:
        for mech in ("defs", "inline"):
            items.append({"fam": "compose-naming", "mech": mech, "callee": csrc, "caller": caller})
    for csrc, caller in wide:
        for mech in ("defs", "inline"):
            items.append({"fam": "compose-naming", "mech": mech, "callee": csrc, "caller": caller, "must_accept": True})
    # results of calls held in variables, re-assigned under a condition, then indexed (two callees)
    F2 = "def g(x: Qint[2]) -> Tuple[Qint[2], bool]:\n    return (x + 1, x[0])\n"
    K2 = "def k(x: Qint[2]) -> Tuple[Qint[2], bool]:\n    return (x, x[1])\n"
    G1 = CALLEES["ii"][0]
    K1 = "def k(x: Qint[2]) -> Qint[2]:\n    return x ^ 3\n"
    two = [
        (F2, K2, "def caller(a: Qint[2], b: bool) -> Qint[2]:\n    c = g(a)\n    if b:\n        c = k(a)\n    return c[0]\n"),
        (F2, K2, "def caller(a: Qint[2], b: bool) -> Qint[2]:\n    c = k(a) if b else g(a)\n    return c[0]\n"),
        (F2, K2, "def caller(a: Qint[2], b: bool) -> bool:\n    c = g(a)\n    d = k(a)\n    return c[1] ^ d[1] ^ b\n"),
        (F2, K2, "def caller(a: Qint[2]) -> Tuple[Qint[2], bool]:\n    c = g(a)\n    return c\n"),
        (F2, K2, "def caller(a: Qint[2]) -> Qint[2]:\n    c, d = g(a)\n    e, h = k(c)\n    return e if (d != h) else c\n"),
        (G1, K1, "def caller(a: Qint[2], b: bool) -> Qint[2]:\n    c = g(a)\n    if b:\n        c = k(c)\n    else:\n        c = g(c)\n    return c\n"),
        (G1, K1, "def caller(a: Qint[2]) -> Qint[2]:\n    c = a\n    for i in range(2):\n        c = g(k(c))\n    return c\n"),
        (G1, K1, "def caller(a: Qint[2], b: Qint[2]) -> bool:\n    return g(a) == k(b)\n"),
    ]
    for c1, c2, caller in two:
        for mech in ("defs", "inline"):
            items.append({"fam": "compose-two", "mech": mech, "callee": c1, "callee2": c2, "caller": caller})
    # oraclize(f, y) for every y
    orc = [
        ("def g(x: Qint[2]) -> Qint[2]:\n    return x + 1\n", [0, 1, 2, 3]),
        ("def g(x: Qint[2]) -> bool:\n    return x > 1\n", [True, False]),
        ("def g(x: Tuple[bool, bool]) -> bool:\n    return x[0] and not x[1]\n", [True, False]),
        ("def g(x: Qint[4]) -> Qint[4]:\n    return x * 3\n", [0, 3, 5, 9, 15]),
        ("def g(x: Tuple[Qint[2], bool]) -> Qint[2]:\n    return (x[0] + 1) if x[1] else x[0]\n", [0, 1, 2, 3]),
        ("def g(x: bool) -> Tuple[bool, bool]:\n    return (x, not x)\n", [(True, False), (False, True), (True, True)]),
        ("def g(x: Qint[2]) -> Tuple[bool, Qint[2]]:\n    return (x[0], x + 1)\n", [(True, 2), (False, 1), (True, 1)]),
        ("def oracle(x: Qint[2]) -> Qint[2]:\n    return x + 1\n", [1]),
        ("def g(x: Qint[3]) -> Qint[3]:\n    return x ^ 5\n", list(range(8))),
    ]
    for csrc, ys in orc:
        for y in ys:
            items.append({"fam": "compose-oraclize", "mech": "oraclize", "callee": csrc, "y": y})
    # shapes reported on the unchanged tree by a round-4 sub-agent (all confirmed, see DESIGN 11):
    # formals whose names collide after prefixing, callees re-assigning two of their parameters,
    # tuple actuals with narrower elements, inline formals shadowing differently typed caller
    # variables, results of calls used by len/sum/all/for, one callee object used by two callers
    GA = "def g(a: bool, g_a: bool) -> bool:\n    return a and not g_a\n"
    G2 = "def g(a: bool, b: bool) -> bool:\n    a = a ^ b\n    b = a and b\n    return a ^ b\n"
    G3 = "def g(x: Qint[2], y: Qint[2]) -> Qint[2]:\n    x = x + y\n    y = x ^ y\n    return x + y\n"
    GT4 = "def g(p: Tuple[Qint[4], Qint[4]]) -> Qint[4]:\n    return p[0] + p[1]\n"
    GTB = "def g(a: Tuple[bool, bool]) -> bool:\n    return a[0] and a[1]\n"
    ROT = "def g(t: Tuple[bool, bool, bool]) -> Tuple[bool, bool, bool]:\n    return (t[1], t[2], t[0])\n"
    RQ = "def g(t: Tuple[Qint[2], Qint[2]]) -> Tuple[Qint[2], Qint[2]]:\n    return (t[1], t[0] + 1)\n"
    agent4 = [
        (GA, "def caller(x: bool, y: bool) -> bool:\n    return g(x, y)\n"),
        (GA, "def caller(x: bool, y: bool) -> bool:\n    return g(y, x) ^ g(x, x)\n"),
        ("def g(g_x: Qint[2], x: Qint[2]) -> Qint[2]:\n    return g_x - x\n", "def caller(p: Qint[2], q: Qint[2]) -> Qint[2]:\n    return g(p, q)\n"),
        (G2, "def caller(x: bool, y: bool) -> bool:\n    return g(x, y)\n"),
        (G2, "def caller(x: bool, y: bool) -> bool:\n    return g(y, x and y) ^ x\n"),
        (G3, "def caller(p: Qint[2], q: Qint[2]) -> Qint[2]:\n    return g(p, q)\n"),
        (GT4, "def caller(a: bool) -> Qint[4]:\n    return g((1, 2))\n"),
        (GT4, "def caller(x: Qint[2], y: Qint[2]) -> Qint[4]:\n    return g((x, y))\n"),
        (GT4, "def caller(x: Qint[2], y: Qint[4]) -> Qint[4]:\n    return g((x, y)) + g((y, x))\n"),
        (GT4, "def caller(u: Tuple[Qint[2], Qint[2]]) -> Qint[4]:\n    return g(u)\n"),
        ("def g(p: Tuple[Qint[4], bool]) -> Qint[4]:\n    return (p[0] + 1) if p[1] else p[0]\n", "def caller(x: Qint[2], b: bool) -> Qint[4]:\n    return g((x, b))\n"),
        (GTB, "def caller(a: Tuple[bool, bool, bool]) -> bool:\n    return g((a[0], a[1])) and all(a)\n"),
        (GTB, "def caller(a: Tuple[bool, bool, bool]) -> Qint[2]:\n    b = g((a[2], a[1]))\n    return len(a)\n"),
        ("def g(a: Qint[2]) -> Qint[2]:\n    return a + 1\n", "def caller(a: Qlist[Qint[2], 3]) -> Qint[4]:\n    return g(a[0]) + sum(a)\n"),
        (ROT, "def caller(t: Tuple[bool, bool, bool]) -> Qint[2]:\n    t = g(t)\n    return len(t)\n"),
        (ROT, "def caller(t: Tuple[bool, bool, bool]) -> bool:\n    u = g(t)\n    return all(u) or (u[0] and not t[0])\n"),
        (ROT, "def caller(t: Tuple[bool, bool, bool]) -> bool:\n    u = g(g(t))\n    c = False\n    for x in u:\n        c = c ^ x\n    return c and u[1]\n"),
        (RQ, "def caller(t: Tuple[Qint[2], Qint[2]]) -> Qint[4]:\n    u = g(t)\n    return sum(u)\n"),
        (RQ, "def caller(t: Tuple[Qint[2], Qint[2]]) -> Qint[2]:\n    u = g(t)\n    return max(u)\n"),
    ]
    # callees named like builtins the translator knows: a call is a call to the user's function
    agent4 += [
        ("def abs(a: Qint[4]) -> Qint[4]:\n    return a + 1\n", "def caller(x: Qint[4]) -> Qint[4]:\n    return abs(3) + x\n"),
        ("def abs(a: Qint[2]) -> Qint[2]:\n    return a ^ 1\n", "def caller(x: Qint[2]) -> Qint[2]:\n    return abs(x) + abs(2)\n"),
        ("def max(a: Tuple[Qint[2], Qint[2]]) -> Qint[2]:\n    return a[0] & a[1]\n", "def caller(x: Qint[2], y: Qint[2]) -> Qint[2]:\n    return max((x, y))\n"),
        ("def sum(a: Tuple[Qint[2], Qint[2]]) -> Qint[2]:\n    return a[0] ^ a[1] ^ 1\n", "def caller(x: Qint[2], y: Qint[2]) -> Qint[2]:\n    return sum((x, y)) + min(x, y)\n"),
        ("def any(a: Tuple[bool, bool]) -> bool:\n    return a[0] and a[1]\n", "def caller(x: bool, y: bool, z: bool) -> bool:\n    return any((x, y)) or all([y, z])\n"),
        ("def min(a: Qint[2], b: Qint[2]) -> Qint[2]:\n    return a + b\n", "def caller(x: Qint[2]) -> Qint[2]:\n    return min(x, 1) + min(2, 3)\n"),
    ]
    for csrc, caller in agent4:
        for mech in ("defs", "inline", "defs-twice"):
            items.append({"fam": "compose-shapes4", "mech": mech, "callee": csrc, "caller": caller})
    # functions defined inside inline functions: a helper is local to the function that defines it
    nested = [
        "def caller(a: bool, b: bool) -> bool:\n    def twist(x: bool) -> bool:\n        return not x\n    def scale(x: bool, y: bool) -> bool:\n        def twist(x: bool) -> bool:\n            return x\n        return twist(x) and y\n    return twist(a) or scale(a, b)\n",
        "def caller(n: Qint[2], m: Qint[2]) -> Qint[2]:\n    def twist(v: Qint[2]) -> Qint[2]:\n        return v + 1\n    def scale(v: Qint[2]) -> Qint[2]:\n        def twist(v: Qint[2]) -> Qint[2]:\n            return v + 2\n        return twist(twist(v))\n    r = scale(n)\n    return twist(r) + twist(m)\n",
        "def caller(a: bool, b: bool) -> bool:\n    def twist(x: bool) -> bool:\n        return not x\n    def scale(x: bool, y: bool) -> bool:\n        def ident(x: bool) -> bool:\n            return x\n        return ident(x) and y\n    return twist(a) or scale(a, b)\n",
        "def caller(a: bool, b: bool) -> bool:\n    def scale(x: bool, y: bool) -> bool:\n        def twist(x: bool) -> bool:\n            return x\n        return twist(x) and y\n    def twist(x: bool) -> bool:\n        return not x\n    return scale(a, b) ^ twist(b)\n",
        "def caller(a: Qint[2], b: bool) -> Qint[2]:\n    def g(x: Qint[2]) -> Qint[2]:\n        def h(y: Qint[2]) -> Qint[2]:\n            return y + 1\n        return h(h(x))\n    def k(x: Qint[2], c: bool) -> Qint[2]:\n        def h(y: Qint[2]) -> Qint[2]:\n            return y ^ 3\n        return h(x) if c else x\n    return g(a) + k(a, b)\n",
    ]
    for src in nested:
        items.append({"fam": "compose-nested", "mech": "plain", "callee": "", "caller": src})
    # two callees of the same name (formals in another order, another body) used one after the
    # other in one process: the second caller must get the second callee
    def swapped(csrc):
        d = ast.parse(csrc).body[0]
        a = d.args.args
        if len(a) >= 2 and ast.dump(a[0].annotation) == ast.dump(a[1].annotation):
            a[0].arg, a[1].arg = a[1].arg, a[0].arg
            return ast.unparse(d) + "\n"
        return None

    for cid in ("bb", "iii", "iib", "reassign", "ifupd", "multi"):
        csrc, formals, rt = CALLEES[cid]
        sw = swapped(csrc)
        call = "g(%s, %s)" % (ACTUALS[formals[0]][0], ACTUALS[formals[1]][1])
        cal = caller_src(call, TY[rt])
        for first, second in ((csrc, sw), (sw, csrc)):
            for mech in ("defs", "inline"):
                items.append({"fam": "compose-sequence", "mech": mech, "callee": second, "caller": cal, "prior": {"callee": first, "caller": cal, "mech": mech}})
    other = "def g(x: bool, y: bool) -> bool:\n    return x or not y\n"
    items.append({"fam": "compose-sequence", "mech": "defs", "callee": CALLEES["bb"][0], "caller": caller_src("g(a, b)", "bool"), "prior": {"callee": other, "caller": caller_src("g(a, b)", "bool"), "mech": "defs"}})
    items.append({"fam": "compose-sequence", "mech": "inline", "callee": other, "caller": caller_src("g(a, b)", "bool"), "prior": {"callee": CALLEES["bb"][0], "caller": caller_src("g(b, a)", "bool"), "mech": "defs"}})
    from .. import corpus2

    for it in corpus2.u_compose2(400):
        for mech in ("defs", "inline"):
            items.append(dict(it, mech=mech))
    out, seen = [], set()
    for it in items:
        for opt in ("default", "fast"):
            sp = dict(it, opt=opt)
            k = item_id(sp)
            if k not in seen:
                seen.add(k)
                out.append(sp)
    return out


def make_items(tier, seed):
    u = universe()
    if tier == "thorough":
        return u
    rnd_items = [sp for sp in u if sp["fam"] == "compose-rand"]
    core = rnd_items[:160] + [sp for sp in u if sp["fam"] in ("compose-oraclize", "compose-naming", "compose-two", "compose-shapes4", "compose-nested", "compose-sequence")] + [sp for i, sp in enumerate(u) if sp["fam"] not in ("compose-oraclize", "compose-naming", "compose-two", "compose-rand", "compose-shapes4", "compose-nested", "compose-sequence") and i % 9 == 0]
    rest = [sp for sp in u if sp not in core]
    return slice_quick(core + rest, seed, len(core), 700)


def fingerprint(qf):
    return (qf.name, [(a.name, str(a.ttype), list(a.bitvec)) for a in qf.args], (qf.returns.name, str(qf.returns.ttype), list(qf.returns.bitvec)), [(str(s), str(e)) for s, e in qf.expressions])


def check_item(spec):
    from qlasskit import qlassf
    from ..circ import opts

    st = Stats()
    res = {"status": "ok", "findings": [], "nontrivial": False, "cls": ""}
    P = opts()[spec["opt"]]
    if spec.get("prior"):
        pr = spec["prior"]
        try:
            if pr["mech"] == "defs":
                qlassf(pr["caller"], defs=[qlassf(pr["callee"], to_compile=False)], to_compile=False, bool_optimizer=P)
            else:
                ls = pr["caller"].split("\n")
                qlassf(ls[0] + "\n" + "\n".join("    " + l for l in pr["callee"].rstrip("\n").split("\n")) + "\n" + "\n".join(ls[1:]), to_compile=False, bool_optimizer=P)
        except Exception:
            pass
    if spec["mech"] == "plain":
        try:
            qf = qlassf(spec["caller"], to_compile=False, bool_optimizer=P)
        except Exception as e:
            res.update(cls="lib-reject", note="%s: %s" % (type(e).__name__, str(e)[:100]))
            return res
        try:
            ref = refsem.reference(spec["caller"])
        except refsem.Unsupported as e:
            res.update(cls="ref-unsupported", note=str(e))
            return res
        findings, status, note, nontriv = frontend.decide(qf, ref, st, original_f=getattr(qf, "original_f", None), validate=True)
        res["findings"] += findings
        res.update(status=status, note=note, nontrivial=nontriv, cls="judged")
        return st.into(res)
    try:
        callee = qlassf(spec["callee"], to_compile=False)
    except Exception as e:
        res.update(cls="callee-rejected", note=type(e).__name__)
        return res
    cdef = ast.parse(spec["callee"]).body[0]
    callee2 = cdef2 = None
    if spec.get("callee2"):
        try:
            callee2 = qlassf(spec["callee2"], to_compile=False)
        except Exception as e:
            res.update(cls="callee-rejected", note=type(e).__name__)
            return res
        cdef2 = ast.parse(spec["callee2"]).body[0]
    fp0 = fingerprint(callee)
    lf0 = repr(callee.to_logicfun())
    try:
        if spec["mech"] in ("defs", "defs-twice"):
            if spec["mech"] == "defs-twice":
                # one description of the callee handed to two translations: the second must not see
                # what the first did to it
                import ast as _ast

                from qlasskit import QlassF as _QF

                lf = callee.to_logicfun()
                try:
                    _QF.from_function("def other(zz: bool) -> bool:\n    return zz\n", defs=[lf], to_compile=False)
                except Exception:
                    pass
                qf = _QF.from_function(spec["caller"], defs=[lf], to_compile=False, bool_optimizer=P)
            else:
                qf = qlassf(spec["caller"], defs=[callee] + ([callee2] if callee2 else []), to_compile=False, bool_optimizer=P)
            ref_src, funs = spec["caller"], {cdef.name: cdef}
            if cdef2 is not None:
                funs[cdef2.name] = cdef2
        elif spec["mech"] == "inline":
            lines = spec["caller"].split("\n")
            both = spec["callee"].rstrip("\n") + ("\n" + spec["callee2"].rstrip("\n") if spec.get("callee2") else "")
            inl = "\n".join("    " + l for l in both.split("\n"))
            src = lines[0] + "\n" + inl + "\n" + "\n".join(lines[1:])
            qf = qlassf(src, to_compile=False, bool_optimizer=P)
            ref_src, funs = src, {}
        else:
            from qlasskit.algorithms import oraclize

            qf = oraclize(callee, spec["y"])
            y = spec["y"]
            ylit = repr(tuple(y)) if isinstance(y, (list, tuple)) else repr(y)
            ann = ast.unparse(cdef.args.args[0].annotation)
            ref_src = "def oracle(v: %s) -> bool:\n    return %s(v) == %s\n" % (ann, cdef.name, ylit)
            funs = {cdef.name: cdef}
    except Exception as e:
        if type(e).__name__ == "ConstantOracleException":
            res.update(cls="constant-oracle")
            return res
        res.update(cls="lib-reject", note="%s: %s" % (type(e).__name__, str(e)[:100]))
        if spec.get("must_accept"):
            # plain well-typed calls (argument and formal of the same declared type): refusing the
            # call is not composition either
            res["findings"].append({"kind": "valid-call-rejected", "what": "%s: %s" % (type(e).__name__, str(e)[:120]), "cex": {}, "replayed": True})
        return res
    # frame condition: the callee object is unchanged
    fp1 = fingerprint(callee)
    if fp1 != fp0 or repr(callee.to_logicfun()) != lf0:
        diff = [i for i, (x, y) in enumerate(zip(fp0, fp1)) if x != y]
        res["findings"].append({"kind": "callee-modified", "what": "callee fingerprint changed in fields %s (name, args, returns, expressions): %s -> %s" % (diff, str(fp0[diff[0]])[:60] if diff else "", str(fp1[diff[0]])[:60] if diff else ""), "cex": {}, "replayed": True})
    try:
        ref = refsem.reference(ref_src, funs=funs)
    except refsem.Unsupported as e:
        res.update(cls="ref-unsupported", note=str(e))
        return res
    except refsem.Undef:
        res.update(cls="ref-undef")
        return res
    orig = getattr(qf, "original_f", None)
    if spec["mech"] != "inline":
        # python's own view of the composition: make the callee visible to the caller's globals
        try:
            g = callee.original_f
            if callable(orig) and hasattr(orig, "__globals__"):
                orig.__globals__[cdef.name] = g
                if callee2 is not None:
                    orig.__globals__[cdef2.name] = callee2.original_f
        except Exception:
            pass
    findings, status, note, nontriv = frontend.decide(qf, ref, st, original_f=orig, validate=(int(item_id(spec), 16) % 4 == 0))
    res["findings"] += findings
    res.update(status=status, note=note, nontrivial=nontriv, cls="judged")
    return st.into(res)


def coverage(specs, results):
    import collections

    cls = collections.Counter(r.get("cls", "") for r in results)
    judged = [r for r in results if r.get("cls") == "judged" and r["status"] == "ok"]
    mech = collections.Counter(sp["mech"] for sp, r in zip(specs, results) if r.get("cls") == "judged")
    samples = []
    for sp, r in zip(specs, results):
        if r.get("cls") == "judged" and len(samples) < 4 and sp["mech"] not in [s["mech"] for s in samples]:
            samples.append({"mech": sp["mech"], "callee": sp["callee"], "caller": sp.get("caller"), "y": sp.get("y"), "verdict": "composition holds for all inputs; callee unchanged" if not r["findings"] else [f["kind"] for f in r["findings"]]})
    rej = collections.Counter(r.get("note", "")[:60] for r in results if r.get("cls") == "lib-reject")
    return {
        "programs": len(judged),
        "disagreements_checked": sum(1 for r in results if r["findings"]),
        "samples": samples,
        "classes": dict(cls),
        "judged_by_mechanism": dict(mech),
        "lib_reject_reasons": dict(rej.most_common(6)),
        "distinct_nontrivial": sum(1 for r in judged if r.get("nontrivial")),
        "evaluations": len(results),
        "rule": "one item = (callee, caller/call shape, mechanism, optimizer profile); non-trivial = satisfiable demand",
    }


if __name__ == "__main__":
    boolq.selftest()
    sys.exit(main_for(sys.modules[__name__]))
