"""C08 — binding parameters is specialisation."""
import ast
import itertools
import sys

from .. import boolq, frontend, refsem
from ..common import Stats, item_id, main_for, slice_quick

PID = "C08"
LEVEL = "translation_validation"
ITEM_CAP = {"quick": 60, "thorough": 120}
FUNCS = ["qlasskit.qlassfun.qlassf -> UnboundQlassf", "qlasskit.qlassfun.UnboundQlassf.bind", "qlasskit.qlassfun.is_parameter_annotation",
         "qlasskit.ast2ast.astrewriter.ASTRewriter.visit_Assign / constantfolder.ConstantFolder (propagation of the injected assignments)"]
BOUNDS = "generated family param-rand (120 quick / 400 thorough programs with 1-2 parameters of bool/Qint/Tuple/Qlist/Qmatrix type, two drawn value assignments, histories [v] and [v,w,v]) + 37 parameterised programs (bool, Qint[2..4], Qlist, Tuple parameters; 1-3 parameters; first/last/interleaved) x ALL parameter values of the declared types x keyword orders x bind histories {v; v,v',v} on one unbound object; remaining arguments symbolic; both optimizer profiles"
OUTSIDE = "program texts enumerated; parameter values enumerated exhaustively (they are compile-time python values, not solver variables)"
ASSUMPTIONS = ["reference meaning of a bound function = RefSem of the unbound source with the parameters replaced by constant assignments",
               "'unbound object unchanged' is a frame condition: ast.dump(fun_ast), parameters dict compared before/after each bind"]

B, Q2, Q4 = "bool", "Qint[2]", "Qint[4]"
PROGS = [
    ("def prog(c: Parameter[bool], a: bool) -> bool:\n    return a and c\n", {"c": "b"}),
    ("def prog(c: Parameter[Qint[2]], a: bool) -> Qint[2]:\n    return c + 1 if a else c\n", {"c": "i2"}),
    ("def prog(c: Parameter[Qint[2]], d: Parameter[Qint[2]], a: bool) -> Qint[2]:\n    return c + d if a else c + 1\n", {"c": "i2", "d": "i2"}),
    ("def prog(a: Qint[2], c: Parameter[Qint[2]]) -> Qint[2]:\n    return a + c\n", {"c": "i2"}),
    ("def prog(a: Qint[2], c: Parameter[Qint[2]]) -> Qint[2]:\n    return a - c\n", {"c": "i2"}),
    ("def prog(a: bool, c: Parameter[bool], b: bool, d: Parameter[bool]) -> bool:\n    return (a and c) or (b ^ d)\n", {"c": "b", "d": "b"}),
    ("def prog(c: Parameter[Qlist[bool, 2]], a: bool) -> bool:\n    return (c[0] and a) or c[1]\n", {"c": "lb2"}),
    ("def prog(c: Parameter[Tuple[bool, Qint[2]]], a: Qint[2]) -> Qint[2]:\n    return (c[1] + a) if c[0] else a\n", {"c": "tbi"}),
    ("def prog(a: Qint[4], c: Parameter[Qint[4]]) -> bool:\n    return a > c\n", {"c": "i4"}),
    ("def prog(a: Qint[2], c: Parameter[Qint[2]]) -> Qint[4]:\n    return a * c\n", {"c": "i2"}),
    ("def prog(a: bool, x: Parameter[bool], y: Parameter[bool], z: Parameter[bool]) -> bool:\n    return (a and x) ^ (y or z)\n", {"x": "b", "y": "b", "z": "b"}),
    ("def prog(a: Qint[2], c: Parameter[Qlist[Qint[2], 2]]) -> Qint[2]:\n    return a + c[0] + c[1]\n", {"c": "li2"}),
    ("def prog(a: Qlist[bool, 4], i: Parameter[Qint[2]]) -> bool:\n    return a[i]\n", {"i": "i2"}),
    ("def prog(a: Qint[2], n: Parameter[Qint[2]]) -> Qint[4]:\n    c = 0\n    for i in range(n):\n        c += a\n    return c\n", {"n": "i2"}),
    ("def prog(a: Qint[3], s: Parameter[Qint[2]]) -> Qint[3]:\n    return a << s\n", {"s": "i2"}),
    ("def prog(a: Qint[2], c: Parameter[Qint[2]], k: Parameter[bool]) -> Qint[2]:\n    b = a\n    if k:\n        b = a + c\n    return b\n", {"c": "i2", "k": "b"}),
    ("def prog(k: Parameter[bool]) -> bool:\n    return not k\n", {"k": "b"}),
    ("def prog(m: Parameter[Qlist[bool, 3]], a: bool, b: bool) -> bool:\n    return (any(m) and a) or (all(m) and b)\n", {"m": "lb3"}),
    ("def prog(m: Parameter[Qlist[Qint[2], 2]], a: Qint[2]) -> Qint[4]:\n    return sum(m) + a\n", {"m": "li2"}),
    ("def prog(m: Parameter[Qlist[Qint[2], 2]], a: Qint[2]) -> Qint[2]:\n    return max(m) if a > min(m) else a\n", {"m": "li2"}),
    ("def prog(m: Parameter[Qlist[bool, 3]], a: Qint[2]) -> Qint[2]:\n    c = a\n    for x in m:\n        c = c + 1 if x else c\n    return c\n", {"m": "lb3"}),
    ("def prog(t: Parameter[Qmatrix[Qint[2], 2, 3]], r: Qint[2], c: Qint[2]) -> Qint[2]:\n    return t[r][c]\n", {"t": "tab23"}),
    ("def prog(t: Parameter[Qmatrix[Qint[2], 3, 2]], r: Qint[2], c: Qint[2]) -> Qint[2]:\n    return t[r][c]\n", {"t": "tab32"}),
    ("def prog(t: Parameter[Qmatrix[Qint[2], 2, 2]], r: Qint[2], c: Qint[2]) -> Qint[2]:\n    return t[r][c]\n", {"t": "tab22"}),
    ("def prog(t: Parameter[Qmatrix[bool, 1, 4]], c: Qint[2]) -> bool:\n    return t[0][c]\n", {"t": "tab14"}),
    ("def prog(t: Parameter[Qlist[Qint[2], 4]], ii: Tuple[Qint[2], Qint[2]]) -> Qint[2]:\n    return t[ii[0]]\n", {"t": "tab4"}),
    ("def prog(t: Parameter[Qlist[Qint[2], 4]], ii: Tuple[Qint[2], Qint[2]]) -> Qint[4]:\n    return t[ii[0]] + t[ii[1]]\n", {"t": "tab4"}),
    ("def prog(t: Parameter[Qlist[bool, 4]], i: Qint[2]) -> bool:\n    return t[i]\n", {"t": "tabb4"}),
    ("def prog(lo: Parameter[Qint[2]], hi: Parameter[Qint[2]], a: Qint[2]) -> bool:\n    return a >= lo and a < hi\n", {"lo": "i2", "hi": "i2"}),
    # a table parameter re-bound to another table (under a condition / unconditionally), then indexed
    ("def prog(t0: Parameter[Qlist[Qint[2], 4]], t1: Parameter[Qlist[Qint[2], 4]], a: Qint[2], b: bool) -> Qint[2]:\n    if b:\n        t0 = t1\n    return t0[a]\n", {"t0": "tab4s", "t1": "tab4s"}),
    ("def prog(t0: Parameter[Qlist[Qint[2], 4]], t1: Parameter[Qlist[Qint[2], 4]], a: Qint[2]) -> Qint[2]:\n    u = t0\n    t0 = t1\n    return t0[a] + u[a]\n", {"t0": "tab4s", "t1": "tab4s"}),
    ("def prog(c: Parameter[Qlist[Qint[2], 3]], d: Parameter[Qlist[Qint[2], 3]], a: Qint[2]) -> Qint[4]:\n    c = d\n    s = a\n    for x in c:\n        s += x\n    return s\n", {"c": "li3s", "d": "li3s"}),
    ("def prog(c: Parameter[Qlist[Qint[2], 3]], d: Parameter[Qlist[Qint[2], 3]], a: Qint[2]) -> Qint[4]:\n    c = d\n    return sum(c) + a\n", {"c": "li3s", "d": "li3s"}),
    ("def prog(c: Parameter[Qmatrix[Qint[2], 2, 3]], a: Qint[2]) -> Qint[4]:\n    return len(c[0]) + sum(c[1]) + a\n", {"c": "tab23"}),
    ("def prog(c: Parameter[Qmatrix[bool, 1, 4]], a: bool) -> bool:\n    return all(c[0]) or (any(c[0]) and a)\n", {"c": "tab14"}),
    ("def prog(k: Parameter[Qint[4]], a: Qint[4]) -> Qint[4]:\n    return a ^ k\n", {"k": "i4"}),
    ("def prog(k: Parameter[Qint[3]], a: Qint[3]) -> bool:\n    return a == k\n", {"k": "i3"}),
    # a parameter re-assigned under a condition and tested afterwards / in the other branch
    ("def prog(inc: Parameter[bool], a: Qint[2], b: bool) -> Qint[2]:\n    r = a\n    if b:\n        inc = False\n        r = a + 1\n    elif inc:\n        r = a + 2\n    if inc:\n        r = r + 1\n    return r\n", {"inc": "b"}),
    ("def prog(k: Parameter[bool], a: bool, b: bool) -> bool:\n    r = a\n    if b:\n        k = not k\n    else:\n        if k:\n            r = not a\n    return r ^ k\n", {"k": "b"}),
    ("def prog(c: Parameter[Qint[2]], a: Qint[2], b: bool) -> Qint[2]:\n    r = a\n    if b:\n        c = a\n    else:\n        r = a + c\n    return r + c\n", {"c": "i2"}),
    ("def prog(k: Parameter[bool], j: Parameter[bool], a: bool) -> bool:\n    r = a\n    if a:\n        k = j\n        r = k\n    else:\n        if k:\n            r = j\n    return r != k\n", {"k": "b", "j": "b"}),
    # elements of a bound table as constant factors inside a loop
    ("def prog(w: Parameter[Qlist[Qint[2], 2]], x: Qint[2], y: Qint[2]) -> Qint[4]:\n    s = Qint4(0)\n    for k in w:\n        s += x * k + y\n    return s\n", {"w": "li2"}),
    ("def prog(w: Parameter[Qlist[Qint[2], 3]], x: Qint[2]) -> Qint[6]:\n    s = 0\n    for k in w:\n        s = s + k * x\n    return s\n", {"w": "li3s"}),
    # the declared width of an integer parameter is wider than the values bound to it
    ("def prog(c: Parameter[Qint[4]], a: bool) -> Qint[4]:\n    return c + 1 if a else c\n", {"c": "i4"}),
    ("def prog(c: Parameter[Qint[4]], a: Qint[2]) -> Qint[4]:\n    return (c + a) + a\n", {"c": "i4"}),
    ("def prog(c: Parameter[Qint[4]], a: Qint[2]) -> bool:\n    return (c + a) > 3\n", {"c": "i4"}),
    ("def prog(s: Parameter[Qint[4]], x: Qint[4]) -> bool:\n    return (x[0] and s[0]) ^ (x[1] and s[1]) ^ (x[2] and s[2]) ^ (x[3] and s[3])\n", {"s": "i4"}),
    ("def prog(c: Parameter[Qlist[Qint[4], 2]], a: Qint[2]) -> Qint[4]:\n    return c[0] + a + c[1]\n", {"c": "li2"}),
    ("def prog(c: Parameter[Tuple[bool, Qint[4]]], a: Qint[2]) -> Qint[4]:\n    return (c[1] + a) if c[0] else (c[1] << 1)\n", {"c": "tbi"}),
    ("def prog(c: Parameter[Qint[6]], a: Qint[4]) -> Qint[6]:\n    return (c << 2) + a\n", {"c": "i4"}),
]
DOM = {
    "b": [False, True],
    "i2": [0, 1, 2, 3],
    "i4": list(range(16)),
    "lb2": [[x, y] for x in (False, True) for y in (False, True)],
    "tbi": [[x, y] for x in (False, True) for y in range(4)],
    "li2": [[x, y] for x in range(4) for y in range(4)],
    "lb3": [[bool(i & 1), bool(i & 2), bool(i & 4)] for i in range(8)],
    "tab23": [[[0, 1, 2], [3, 2, 1]], [[1, 1, 0], [0, 3, 3]], [[3, 0, 1], [2, 2, 0]]],
    "tab32": [[[0, 1], [2, 3], [1, 0]], [[3, 3], [0, 1], [2, 0]]],
    "tab22": [[[0, 1], [2, 3]], [[3, 1], [1, 0]]],
    "tab4s": [[1, 2, 3, 0], [3, 3, 0, 1], [0, 0, 2, 2]],
    "i3": list(range(8)),
    "li3s": [[1, 1, 1], [2, 0, 3], [0, 3, 3]],
    "tab4": [[0, 1, 1, 2], [3, 3, 1, 1], [2, 2, 2, 0], [1, 2, 3, 0], [0, 0, 0, 0], [1, 0, 0, 1]],
    "tabb4": [[True, False, False, True], [False, True, True, True], [False, False, False, False], [True, True, False, False]],
    "tab14": [[[True, False, False, True]], [[False, True, True, False]], [[True, True, False, False]]],
}


EXPECT_REJECT = ("return a[i]\n", "for i in range(n):", "return a << s", "return t[0][c]")


def universe():
    out = []
    for src, params in PROGS:
        names = list(params)
        vals = [dict(zip(names, combo)) for combo in itertools.product(*[DOM[params[n]] for n in names])]
        for opt in ("default", "fast"):
            for i, v in enumerate(vals):
                out.append({"fam": "param", "src": src, "hist": [v], "korder": "fwd", "opt": opt})
                if len(names) > 1:
                    out.append({"fam": "param", "src": src, "hist": [v], "korder": "rev", "opt": opt})
                v2 = vals[(i * 7 + 3) % len(vals)]
                if i % 3 == 0 and len(vals) > 1:
                    out.append({"fam": "param-history", "src": src, "hist": [v, v2, v], "korder": "fwd", "opt": opt})
                # the same unbound object bound again with the keywords permuted and the same value
                # sequence: bind(c=x, d=y) then bind(d=x, c=y)
                if len(names) == 2 and params[names[0]] == params[names[1]] and v[names[0]] != v[names[1]]:
                    sw = {names[0]: v[names[1]], names[1]: v[names[0]]}
                    out.append({"fam": "param-history", "src": src, "hist": [v, sw, v], "korder": "fwd", "korders": ["fwd", "rev", "fwd"], "opt": opt})
    return out


def random_family(tier):
    from .. import corpus2

    out = []
    for it in corpus2.u_param2(400 if tier == "thorough" else 120):
        for opt in ("default", "fast"):
            out.append({"fam": "param-rand", "src": it["src"], "hist": [it["v"]], "korder": "fwd", "opt": opt, "may_reject": True})
            if it["v"] != it["w"]:
                out.append({"fam": "param-rand", "src": it["src"], "hist": [it["v"], it["w"], it["v"]], "korder": "rev" if len(it["v"]) > 1 else "fwd", "opt": opt, "may_reject": True})
    return out


def make_items(tier, seed):
    u = universe()
    # container values handed over as mutable lists and changed by the caller after the bind
    mut = [dict(sp, mutable=True) for i, sp in enumerate(u) if any(isinstance(x, list) for v in sp["hist"] for x in v.values()) and i % 3 == 0]
    rf = random_family(tier)
    mut += [dict(sp, mutable=True) for i, sp in enumerate(rf) if any(isinstance(x, list) for v in sp["hist"] for x in v.values()) and i % 2 == 0]
    u = u + mut
    if tier == "thorough":
        return u + rf
    u = rf[:120] + u + rf[120:]
    core = rf[:120] + mut[::4] + [sp for i, sp in enumerate(u) if sp["fam"] == "param-history" and i % 2 == 0] + [sp for i, sp in enumerate(u) if sp["fam"] == "param" and i % 5 == 0]
    rest = [sp for sp in u if sp not in core]
    return slice_quick(core + rest, seed, len(core), 450)


def mutval(v):
    return [mutval(x) for x in v] if isinstance(v, (list, tuple)) else v


def scramble(x):
    if isinstance(x, list):
        for e in x:
            scramble(e)
        x.reverse()
        for i, e in enumerate(x):
            if isinstance(e, bool):
                x[i] = not e
            elif isinstance(e, int):
                x[i] = (e + 1) % 4


def pyval(v):
    return tuple(pyval(x) for x in v) if isinstance(v, list) else v


def check_item(spec):
    from qlasskit import qlassf
    from ..circ import opts

    st = Stats()
    res = {"status": "ok", "findings": [], "nontrivial": False, "cls": ""}
    try:
        u = qlassf(spec["src"], to_compile=False, bool_optimizer=opts()[spec["opt"]])
    except Exception as e:
        res.update(cls="lib-reject", note=type(e).__name__)
        return res
    if not hasattr(u, "bind"):
        res.update(cls="not-unbound")
        return res
    dump0 = ast.dump(u.fun_ast)
    params0 = sorted(u.parameters)
    exprs = []
    judged = 0
    for step, v in enumerate(spec["hist"]):
        kw = {k: (mutval(x) if spec.get("mutable") else pyval(x)) for k, x in v.items()}
        if spec.get("korders", [spec["korder"]] * (step + 1))[step] == "rev":
            kw = dict(reversed(list(kw.items())))
        try:
            qf = u.bind(**kw)
        except Exception as e:
            if spec.get("may_reject") or any(x in spec["src"] for x in EXPECT_REJECT):
                res.update(cls="lib-reject", note="bind: %s: %s" % (type(e).__name__, str(e)[:80]))
            else:
                res["findings"].append({"kind": "bind-raises", "what": "bind(%s) raises %s: %s" % (kw, type(e).__name__, str(e)[:100]), "cex": {}, "replayed": True})
                res["cls"] = "judged"
            break
        if spec.get("mutable"):
            # the caller goes on using (and changing) the objects it passed: the bound function was
            # specialised to the values they had when bind was called
            for x in kw.values():
                scramble(x)
        if ast.dump(u.fun_ast) != dump0 or sorted(u.parameters) != params0:
            res["findings"].append({"kind": "unbound-modified", "what": "bind(%s) changed the unbound object's AST/parameters" % kw, "cex": {}, "replayed": True})
        exprs.append(str(qf.expressions))
        try:
            ref = refsem.reference(spec["src"], param_values=v)
        except refsem.Unsupported as e:
            res.update(cls="ref-unsupported", note=str(e))
            continue
        except refsem.Undef:
            res.update(cls="ref-undef")
            continue
        arg_names = [n for n, _ in ref["args"]]

        def unbound_python(*vals, _v=v, _names=arg_names):
            kwargs = {k: pyval(x) for k, x in _v.items()}
            kwargs.update(dict(zip(_names, vals)))
            return u.original_f(**kwargs)

        findings, status, note, nontriv = frontend.decide(qf, ref, st, original_f=unbound_python, validate=(step == 0))
        # the bound object's own python function must agree with it as well
        if not findings and status == "ok" and callable(getattr(qf, "original_f", None)):
            bf = bound_python_agrees(qf, unbound_python, ref)
            if bf:
                findings.append(bf)
        for f in findings:
            f["kind"] = f["kind"] + "@bind%d" % step
            f["what"] = "bind(%s) [%d of %s]: %s" % (kw, step, spec["hist"], f["what"])
        res["findings"] += findings
        judged += 1
        if status != "ok":
            res.update(status=status, note=note)
        res["nontrivial"] = res["nontrivial"] or nontriv or not ref["argbits"]
    if len(exprs) == 3 and exprs[0] != exprs[2]:
        res["findings"].append({"kind": "rebind-differs", "what": "binding %s again after %s gives different expressions: %s vs %s" % (spec["hist"][0], spec["hist"][1], exprs[0][:100], exprs[2][:100]), "cex": {}, "replayed": True})
    if judged:
        res["cls"] = "judged"
    return st.into(res)


def bound_python_agrees(qf, unbound_python, ref):
    """frame check (concrete): qf.original_f of the bound function equals the unbound python
    function with the parameters set, on all inputs when there are <= 6 input bits"""
    import itertools

    from .. import frontend as fe

    n = len(ref["argbits"])
    if n > 6:
        return None
    for bits in itertools.product([False, True], repeat=n):
        asg = dict(zip(ref["argbits"], bits))
        m = _FakeModel(asg)
        vals = fe.model_values(m, ref)
        try:
            a = unbound_python(*vals)
        except Exception:
            continue
        try:
            b = qf.original_f(*vals)
        except Exception as e:
            return {"kind": "bound-python-raises", "what": "bound original_f%s raises %s" % (tuple(vals), type(e).__name__), "cex": {"args": repr(vals)}, "replayed": True}
        try:
            same = refsem.python_value_bits(a, ref["ret_type"]) == refsem.python_value_bits(b, ref["ret_type"])
        except Exception:
            same = a == b
        if not same:
            return {"kind": "bound-python-differs", "what": "args %s: bound object's python function gives %r, unbound function with the parameters set gives %r" % (vals, b, a), "cex": {"args": repr(vals)}, "replayed": True}
    return None


class _FakeModel:
    def __init__(self, asg):
        self.asg = asg

    def eval(self, t, model_completion=True):
        import z3

        return z3.BoolVal(self.asg[str(t)])


def coverage(specs, results):
    import collections

    cls = collections.Counter(r.get("cls", "") for r in results)
    judged = [r for r in results if r.get("cls") == "judged" and r["status"] == "ok"]
    samples = []
    for sp, r in zip(specs, results):
        if r.get("cls") == "judged" and len(samples) < 3 and len(sp["hist"]) == (3 if len(samples) == 1 else 1):
            samples.append({"src": sp["src"], "history": sp["hist"], "korder": sp["korder"], "verdict": "every bound function equals the specialised source on all inputs; unbound object unchanged" if not r["findings"] else [f["kind"] for f in r["findings"]]})
    rej = collections.Counter((sp["src"].split("\n")[1].strip(), r.get("note", "")[:50]) for sp, r in zip(specs, results) if r.get("cls") == "lib-reject")
    return {
        "programs": len(judged),
        "disagreements_checked": sum(1 for r in results if r["findings"]),
        "samples": samples or [{"note": "no judged sample"}],
        "classes": dict(cls),
        "lib_reject": [list(k) + [v] for k, v in rej.most_common(6)],
        "distinct_nontrivial": sum(1 for r in judged if r.get("nontrivial")),
        "evaluations": len(results),
        "binds_performed": sum(len(sp["hist"]) for sp in specs),
        "rule": "one item = (parameterised program, bind history of 1 or 3 value assignments, keyword order, profile)",
    }


if __name__ == "__main__":
    boolq.selftest()
    sys.exit(main_for(sys.modules[__name__]))
