"""C09 — type codecs are exact and mutually inverse (engine C: symbolic execution of the real
codec source with z3 proxies; every bit pattern / value is a solver variable)."""
import random
import sys
import typing

import z3

from .. import symx
from ..common import Stats, item_id, main_for

PID = "C09"
LEVEL = "other"
ITEM_CAP = {"quick": 120, "thorough": 1200}
FUNCS = [
    "qlasskit.types.qtype.{bin_to_bool_list,bool_list_to_bin,Qtype.to_bin,Qtype.from_bin,Qtype.fill}",
    "qlasskit.types.qint.QintImp.{__init__,from_bool,to_bool,const,to_amplitudes} for every class in QINT_TYPES",
    "qlasskit.types.qfixed.QfixedImp.{__init__,from_bool,to_bool,const,to_amplitudes} for every class in QFIXED_TYPES",
    "qlasskit.types.qchar.Qchar.{__init__,from_bool,to_bool,const,to_amplitudes}",
    "qlasskit.types.const_to_qtype, format_outcome, interpret_as_qtype",
]
BOUNDS = {
    "quick": "all QINT_TYPES/QFIXED_TYPES/Qchar for (a),(b),(c),(e); to_amplitudes (d) for widths <= 6; 14 nested type shapes for (f); path budget 2000 per harness; bin() forks on bit length <= 20",
    "thorough": "as quick, plus to_amplitudes for widths <= 7 and 30 nested shapes",
}
OUTSIDE = "to_amplitudes for types wider than 8 bits (index realisation forks 2^w ways); const_to_qtype on floats (approximation of non-dyadic literals); negative or out-of-range values"
ASSUMPTIONS = [
    "python floats that arise from a bit pattern are dyadic rationals with <= 10 significant bits, on which IEEE double +, *2, %1, int() are exact: modelled as z3 Reals",
    "proxies/shims of qv/symx.py (bin via fresh bit variables + linear constraint, int(str,2), ord/chr, str/int/float base classes); validated every run by differential concretisation: the same harness with concrete inputs through the twin and through the untouched module must agree",
]

QINTS = ["Qint2", "Qint3", "Qint4", "Qint5", "Qint6", "Qint7", "Qint8", "Qint12", "Qint16"]
QFIX = ["Qfixed1_2", "Qfixed1_3", "Qfixed1_4", "Qfixed1_6", "Qfixed2_2", "Qfixed2_3", "Qfixed2_4", "Qfixed2_6", "Qfixed3_3", "Qfixed3_4", "Qfixed3_6", "Qfixed4_4", "Qfixed4_6"]
SHAPES = [
    "Tuple[bool, bool]", "Tuple[Qint2, bool]", "Tuple[bool, Qint2]", "Tuple[Qint2, Qint4]", "Tuple[Tuple[bool, Qint2], bool]",
    "Tuple[bool, Tuple[Qint2, bool]]", "Qlist[bool, 3]", "Qlist[Qint2, 3]", "Qmatrix[bool, 2, 2]", "Qmatrix[Qint2, 2, 2]",
    "Tuple[Qchar, bool]", "Tuple[Qfixed1_2, Qint2]", "Qint4", "bool",
    "Tuple[Qint3, Qint3, Qint3]", "Tuple[Tuple[Qint2, Qint2], Tuple[bool, bool]]", "Qlist[Qint4, 2]", "Tuple[bool, Qfixed2_2, bool]",
    "Tuple[Tuple[Tuple[bool, bool], bool], bool]", "Qlist[bool, 5]", "Qmatrix[bool, 2, 3]", "Qmatrix[bool, 3, 2]", "Tuple[Qint2, Tuple[Qint2, Tuple[Qint2, bool]]]",
    "Tuple[Qchar, Qchar]", "Tuple[Qint8, bool]", "Qlist[Qfixed1_2, 2]", "Tuple[Qint5, Qint7]", "Tuple[bool, bool, bool, bool, bool, bool]", "Qlist[Qint3, 4]", "Qchar",
]


def make_items(tier, seed):
    items = []
    for t in QINTS + QFIX + ["Qchar"]:
        for ob in ("roundtrip", "binstr", "const"):
            items.append({"ob": ob, "type": t})
    for t in QINTS + QFIX + ["Qchar"]:
        w = width_of(t)
        # 2^w paths: 8-bit types need ~10 CPU-minutes per type and came back inconclusive on a loaded
        # machine (cap hit / a cross-checked run that did not finish): stated outside the bound
        if w <= (7 if tier == "thorough" else 6):
            items.append({"ob": "amplitudes", "type": t})
    for t in QFIX:
        items.append({"ob": "const-near-grid", "type": t})
    items.append({"ob": "const_to_qtype", "type": "int"})
    items.append({"ob": "const_to_qtype", "type": "str"})
    for sh in SHAPES[: (len(SHAPES) if tier == "thorough" else 14)]:
        items.append({"ob": "interpret", "type": sh})
    # histories of literals of equal numeric value but different Python type (1 and 1.0, 5 and 5.0 ...):
    # each literal is encoded by its own type whatever was translated before in the process
    for k, order in enumerate([[1, 1.0, 0, 0.0, 5, 5.0, 2.5, 3.0, 3], [1.0, 1, 5.0, 5, 0.0, 0, 3, 3.0], [1, 0, 1.0, 0.0, 7.0, 7, 2, 2.0, 6, 6.0]]):
        items.append({"ob": "literal-history", "type": "mixed", "order": [repr(x) for x in order], "k": k})
    # the outcome passed as a list of bools: left untouched, and decoded the same way twice
    for sh in ("Qint4", "Tuple[Qint2, Tuple[Qint4, bool]]", "Tuple[bool, Qint3]", "Qlist[Qint2, 3]"):
        items.append({"ob": "interpret-list", "type": sh})
    return items


def width_of(t):
    if t.startswith("Qint"):
        return int(t[4:])
    if t.startswith("Qfixed"):
        a, b = t[6:].split("_")
        return int(a) + int(b)
    return 8


def resolve(mod, sh):
    """type expression -> type object inside module `mod` (twin or real qlasskit)"""
    ns = {"Tuple": typing.Tuple, "bool": bool}
    for n in QINTS + QFIX + ["Qchar", "Qlist", "Qmatrix"]:
        ns[n] = getattr(mod.types, n)
    return eval(sh, ns)


def leaves(t):
    if t is bool or hasattr(t, "BIT_SIZE"):
        return [t]
    out = []
    for a in typing.get_args(t):
        out += leaves(a)
    return out


def flat_values(v, t):
    if t is bool or hasattr(t, "BIT_SIZE"):
        return [v]
    out = []
    for x, a in zip(v, typing.get_args(t)):
        out += flat_values(x, a)
    return out


def conc(x):
    """concrete python view of a result produced by real or twin code (for differential runs)"""
    if hasattr(x, "_sx_base"):
        return conc(x._sx_base)
    if isinstance(x, (list, tuple)):
        return [conc(y) for y in x]
    if isinstance(x, bool):
        return bool(x)
    if isinstance(x, float):
        return float(x)
    if isinstance(x, int):
        return int(x)
    if isinstance(x, str):
        return str(x)
    return x


def harness(spec, mod, inputs):
    """the code under test, as a closure over `inputs`; identical for twin (symbolic or concrete
    inputs) and real module (concrete inputs)."""
    ob, tn = spec["ob"], spec["type"]
    if ob == "roundtrip":
        cls = getattr(mod.types, tn)
        return lambda: cls.from_bool(list(inputs["bits"])).to_bool()
    if ob == "binstr":
        cls = getattr(mod.types, tn)
        return lambda: cls.from_bin(inputs["s"]).to_bin()
    if ob == "const":
        cls = getattr(mod.types, tn)
        if tn.startswith("Qfixed"):
            return lambda: [cls.const(inputs["v"])[1], cls.from_bool(cls.const(inputs["v"])[1])]
        return lambda: [cls.const(inputs["v"])[1], cls(inputs["v"]).to_bool()]
    if ob == "amplitudes":
        cls = getattr(mod.types, tn)
        return lambda: [cls.from_bool(list(inputs["bits"])).to_amplitudes()]
    if ob == "const_to_qtype":
        def f():
            t, bits = mod.types.const_to_qtype(inputs["v"])
            return [t.__name__, bits, t.from_bool(bits)]

        return f
    if ob == "interpret":
        t = resolve(mod, tn)
        n = sum(1 if l is bool else l.BIT_SIZE for l in leaves(t))

        def f():
            v = mod.types.interpret_as_qtype(inputs["s"], t, n)
            out = []
            for x, l in zip(flat_values(v, t), leaves(t)):
                out.append([x] if l is bool else x.to_bool())
            return out

        return f
    raise ValueError(ob)


def concrete_items(spec, res, st):
    """obligations about call histories / frame conditions, on the real module (concrete values:
    there is nothing for the solver to quantify over except the order, which is enumerated)"""
    import qlasskit
    from qlasskit.types import const_to_qtype, interpret_as_qtype

    def finding(kind, what):
        res["findings"].append({"kind": kind, "what": what, "cex": {}, "replayed": True})

    if spec["ob"] == "const-near-grid":
        # float values an ulp or a rounding error away from a grid point of the type (the results of
        # folded literals such as 0.41 - 0.16): the compile-time constant and the run-time encoding
        # of the very same python float must be the same bits (concrete floats; the symbolic obligation
        # models the payload as a real number and cannot see representation noise)
        import math

        T = getattr(qlasskit.types, spec["type"], None) or getattr(__import__("qlasskit.types.qfixed", fromlist=["x"]), spec["type"])
        i_, f_ = [int(x) for x in spec["type"][6:].split("_")]
        vals = []
        for k in range(0, 2 ** (i_ + f_), max(1, 2 ** (i_ + f_) // 24)):
            g = k / 2 ** f_
            vals += [g, math.nextafter(g, 10.0), math.nextafter(g, -1.0), g + 1e-12, g - 1e-12, g + 3e-10, g - 3e-10]
        vals += [0.41 - 0.16, 0.96 - 0.46, 1.16 - 0.16, 0.1 + 0.2, 0.3 / 0.1, 0.7 - 0.2, 1.1 + 2.2, 0.35 + 0.4, 2.675 - 0.05]
        for v in vals:
            if v < 0 or v >= 2 ** i_:
                continue
            try:
                a = list(T.const(v)[1])
                b = list(T(v).to_bool())
            except Exception as e:
                finding("codec-const", "%s: const / to_bool of %r raises %s: %s" % (spec["type"], v, type(e).__name__, str(e)[:60]))
                break
            if a != b:
                finding("codec-const", "%s: const(%r) = %s but the run-time encoding of the same value is %s" % (spec["type"], v, a, b))
                break
        return st.into(res)
    if spec["ob"] == "literal-history":
        seen = []
        for lit in spec["order"]:
            v = eval(lit)
            try:
                t, bits = const_to_qtype(v)
            except Exception as e:
                finding("codec-literal-history", "const_to_qtype(%s) after %s raises %s: %s" % (lit, seen, type(e).__name__, str(e)[:60]))
                break
            name = getattr(t, "__name__", str(t))
            if isinstance(v, bool):
                ok = t is bool and bits == v
            elif isinstance(v, int):
                ok = name.startswith("Qint") and t.from_bool(bits) == v and len(bits) == t.BIT_SIZE
            else:
                ok = name.startswith("Qfixed") and float(t.from_bool(bits)) == v and len(bits) == t.BIT_SIZE
            if not ok:
                finding("codec-literal-history", "const_to_qtype(%s) after %s -> (%s, %s): not the encoding of a %s literal" % (lit, seen, name, bits, type(v).__name__))
                break
            seen.append(lit)
        return st.into(res)
    # interpret-list
    t = resolve(qlasskit, spec["type"])
    n = sum(1 if l is bool else l.BIT_SIZE for l in leaves(t))
    rnd = random.Random(int(item_id(spec), 16))
    pats = [[(i >> k) & 1 == 1 for k in range(n)] for i in ([1, 2 ** (n - 1), 5 % (2 ** n), 2 ** n - 2] + [rnd.randrange(2 ** n) for _ in range(12)])]
    for bits in pats:
        arg = list(bits)
        try:
            v1 = interpret_as_qtype(arg, t, n)
            after1 = list(arg)
            v2 = interpret_as_qtype(arg, t, n)
        except Exception as e:
            finding("codec-interpret-list", "%s: interpret_as_qtype(%s) raises %s" % (spec["type"], bits, type(e).__name__))
            break
        if after1 != bits or list(arg) != bits:
            finding("codec-interpret-list", "%s: the caller's outcome list %s is left as %s after one call" % (spec["type"], bits, after1))
            break
        if repr(v1) != repr(v2):
            finding("codec-interpret-list", "%s: the same outcome list %s decodes to %r and then to %r" % (spec["type"], bits, v1, v2))
            break
        flat = []
        for x, l in zip(flat_values(v1, t), leaves(t)):
            flat += [x] if l is bool else list(x.to_bool())
        s_ = "".join("1" if b else "0" for b in bits)
        vs = interpret_as_qtype(s_, t, n)
        if repr(vs) != repr(v1):
            finding("codec-interpret-list", "%s: list %s decodes to %r, the string with the same characters to %r" % (spec["type"], bits, v1, vs))
            break
    return st.into(res)


def check_item(spec):
    import qlasskit

    st = Stats()
    res = {"status": "ok", "findings": [], "nontrivial": True}
    if spec["ob"] in ("literal-history", "interpret-list", "const-near-grid"):
        return concrete_items(spec, res, st)
    tw = symx.twin()
    ob, tn = spec["ob"], spec["type"]
    base = []
    inputs = {}
    w = None
    if ob in ("roundtrip", "amplitudes"):
        w = getattr(tw.types, tn).BIT_SIZE
        inputs["bits"] = symx.sym_bools("b", w)
    elif ob == "binstr":
        w = getattr(tw.types, tn).BIT_SIZE
        cs = [z3.Int("c%d" % i) for i in range(w)]
        base += [z3.Or(c == 48, c == 49) for c in cs]
        inputs["s"] = symx.SxStr([symx.SxChar(c) for c in cs])
    elif ob == "const":
        cls = getattr(tw.types, tn)
        w = cls.BIT_SIZE
        if tn.startswith("Qint"):
            v = z3.Int("v")
            base += [v >= 0, v < 2 ** w]
            inputs["v"] = symx.SxInt(v)
        elif tn == "Qchar":
            v = z3.Int("v")
            base += [v >= 0, v < 256]
            inputs["v"] = symx.SxChar(v)
        else:
            k = z3.Int("k")
            f = cls.BIT_SIZE_FRACTIONAL
            base += [k >= 0, k < 2 ** w]
            inputs["v"] = symx.SxReal(z3.ToReal(k) / (2 ** f))
    elif ob == "const_to_qtype":
        v = z3.Int("v")
        if tn == "int":
            base += [v >= 0, v < 2 ** 16]
            inputs["v"] = symx.SxInt(v)
        else:
            base += [v >= 0, v < 256]
            inputs["v"] = symx.SxChar(v)
    elif ob == "interpret":
        t = resolve(tw, tn)
        w = sum(1 if l is bool else l.BIT_SIZE for l in leaves(t))
        cs = [z3.Int("c%d" % i) for i in range(w)]
        base += [z3.Or(c == 48, c == 49) for c in cs]
        inputs["s"] = symx.SxStr([symx.SxChar(c) for c in cs])
    fn = harness(spec, tw, inputs)
    paths, aborted = symx.explore(fn, base=base, stats=st, maxpaths=2000)
    res["paths"] = len(paths)
    if aborted or not paths:
        res.update(status="inconclusive", note="%d paths aborted / %d completed" % (aborted, len(paths)))
        return st.into(res)

    # ---- postconditions
    def bits_eq(out, want):
        if len(out) != len(want):
            return False
        return z3.And(*[symx.tobool(o) == symx.tobool(x) for o, x in zip(out, want)])

    def post(r):
        if r[0] == "exc":
            return False
        out = r[1]
        if ob == "roundtrip":
            return bits_eq(out, inputs["bits"])
        if ob == "binstr":
            e = out == inputs["s"] if isinstance(out, symx.SxStr) else (inputs["s"] == out)
            return e.t if isinstance(e, symx.SxBool) else bool(e)
        if ob == "const":
            if tn.startswith("Qfixed"):
                e = out[1] == inputs["v"]
                if hasattr(out[1], "_sx_base"):
                    e = out[1]._sx_base == inputs["v"]
                return z3.And(len(out[0]) == cls.BIT_SIZE, e.t if isinstance(e, symx.SxBool) else bool(e))
            return z3.And(len(out[0]) == w, bits_eq(out[0], out[1]))
        if ob == "amplitudes":
            amp = out[0]
            if len(amp) != 2 ** w:
                return False
            idx = z3.Sum([z3.If(b.t, 2 ** k, 0) for k, b in enumerate(inputs["bits"])])
            terms = []
            for i, a in enumerate(amp):
                if symx.is_sym(a):
                    return False
                terms.append((idx == i) == z3.BoolVal(a == 1) if a in (0, 1, 0.0, 1.0) else z3.BoolVal(False))
            return z3.And(*terms)
        if ob == "const_to_qtype":
            name, bits, back = out
            if tn == "int":
                bw = int(name[4:])
                val = back._sx_base if hasattr(back, "_sx_base") else back
                val = val if isinstance(val, symx.SxInt) else symx.SxInt(z3.IntVal(int(val)))
                return z3.And(name.startswith("Qint"), len(bits) == bw, inputs["v"].t < 2 ** bw, val.t == inputs["v"].t)
            val = back._sx_base if hasattr(back, "_sx_base") else back
            e = val == inputs["v"]
            return z3.And(name == "Qchar", len(bits) == 8, e.t if isinstance(e, symx.SxBool) else bool(e))
        if ob == "interpret":
            flat = [b for leaf in out for b in leaf]
            if len(flat) != w:
                return False
            s = inputs["s"].cs
            return z3.And(*[symx.tobool(flat[i]) == (s[w - 1 - i].t == 49) for i in range(w)])
        return False

    cex = symx.post_holds(paths, post, st, base=base)
    for c in cex[:3]:
        if c.get("unknown"):
            res.update(status="inconclusive", note="solver unknown on path %d" % c["path"])
            continue
        m = c["model"]
        cin = concretise(spec, inputs, m)
        real_out, real_ok = run_real(spec, qlasskit, cin)
        if not real_ok["holds"]:
            res["findings"].append({"kind": "codec-" + ob, "what": "%s %s: input %s -> %s" % (tn, ob, show(cin), real_ok["why"]), "cex": {"input": show(cin)}, "replayed": True})
        else:
            res.update(status="inconclusive", note="counterexample %s did not reproduce on the real class (twin model wrong?); twin path result: %s" % (show(cin), repr(c.get("result"))[:300]))
        break
    # ---- differential concretisation: twin (concrete inputs) vs real module
    rnd = random.Random(int(item_id(spec), 16))
    for _ in range(3):
        cin = random_input(spec, rnd, w)
        try:
            a = conc(harness(spec, tw, cin)())
        except Exception as e:
            a = "exc:" + type(e).__name__
        try:
            b = conc(harness(spec, qlasskit, cin)())
        except Exception as e:
            b = "exc:" + type(e).__name__
        # the real classes on this concrete input: a violated postcondition is a finding whatever
        # the twin says (this also catches state that leaks from one call to the next)
        ro, rk = run_real(spec, qlasskit, cin)
        if not rk["holds"]:
            res["findings"].append({"kind": "codec-" + ob, "what": "%s %s: input %s -> %s (call #%d of this process)" % (tn, ob, show(cin), rk["why"], _ + 1), "cex": {"input": show(cin)}, "replayed": True})
            break
        if a != b:
            res.update(status="inconclusive", note="differential concretisation: twin %s != real %s on %s" % (str(a)[:80], str(b)[:80], show(cin)))
    return st.into(res)


def show(cin):
    return {k: (v if not isinstance(v, list) else "".join("1" if x else "0" for x in v)) for k, v in cin.items()}


def concretise(spec, inputs, m):
    out = {}
    for k, v in inputs.items():
        if k == "bits":
            out[k] = [bool(z3.is_true(m.eval(b.t, model_completion=True))) for b in v]
        elif k == "s":
            out[k] = "".join(chr(m.eval(c.t, model_completion=True).as_long()) for c in v.cs)
        elif isinstance(v, symx.SxInt):
            out[k] = m.eval(v.t, model_completion=True).as_long()
        elif isinstance(v, symx.SxChar):
            out[k] = chr(m.eval(v.t, model_completion=True).as_long())
        elif isinstance(v, symx.SxReal):
            r = m.eval(v.t, model_completion=True)
            out[k] = float(r.numerator_as_long()) / float(r.denominator_as_long())
    return out


def random_input(spec, rnd, w):
    ob, tn = spec["ob"], spec["type"]
    if ob in ("roundtrip", "amplitudes"):
        return {"bits": [rnd.random() < 0.5 for _ in range(w)]}
    if ob in ("binstr", "interpret"):
        return {"s": "".join(rnd.choice("01") for _ in range(w))}
    if ob == "const":
        if tn.startswith("Qint"):
            return {"v": rnd.randrange(2 ** w)}
        if tn == "Qchar":
            return {"v": chr(rnd.randrange(256))}
        f = int(tn.split("_")[1])
        return {"v": rnd.randrange(2 ** w) / float(2 ** f)}
    if ob == "const_to_qtype":
        return {"v": rnd.randrange(2 ** 16) if tn == "int" else chr(rnd.randrange(256))}


def run_real(spec, mod, cin):
    """replay on the untouched classes; returns (output, {'holds': bool, 'why': str})"""
    ob, tn = spec["ob"], spec["type"]
    try:
        out = harness(spec, mod, cin)()
    except Exception as e:
        return None, {"holds": False, "why": "real code raises %s: %s" % (type(e).__name__, str(e)[:80])}
    o = conc(out)
    if ob == "roundtrip":
        return o, {"holds": o == cin["bits"], "why": "from_bool(bits).to_bool() = %s" % "".join("1" if x else "0" for x in o)}
    if ob == "binstr":
        return o, {"holds": o == cin["s"], "why": "from_bin(s).to_bin() = %s" % o}
    if ob == "const":
        if tn.startswith("Qfixed"):
            return o, {"holds": float(o[1]) == float(cin["v"]), "why": "from_bool(const(v)) = %s" % o[1]}
        return o, {"holds": o[0] == o[1], "why": "const(v) = %s but T(v).to_bool() = %s" % (o[0], o[1])}
    if ob == "amplitudes":
        idx = sum(2 ** k for k, b in enumerate(cin["bits"]) if b)
        amp = o[0]
        ones = [i for i, a in enumerate(amp) if a == 1]
        return o, {"holds": ones == [idx] and all(a in (0, 1) for a in amp), "why": "encoding index %d but amplitude 1 at %s" % (idx, ones)}
    if ob == "const_to_qtype":
        return o, {"holds": (o[2] == cin["v"]), "why": "const_to_qtype -> %s, decodes to %r" % (o[0], o[2])}
    if ob == "interpret":
        flat = [b for leaf in o for b in leaf]
        want = [c == "1" for c in reversed(cin["s"])]
        return o, {"holds": flat == want, "why": "decoded leaf encodings %s != bits %s" % (flat, want)}


def coverage(specs, results):
    import collections

    c = collections.Counter(sp["ob"] for sp, r in zip(specs, results) if r["status"] == "ok")
    return {
        "explanation": "Each obligation runs the real codec source (re-imported from /repo through an AST transformer) on symbolic bit patterns / values; every completed path contributes a query PC and not(post). unsat on all paths = holds for every pattern of that type. Counterexamples are replayed on the untouched classes.",
        "evaluations": len(results),
        "distinct_nontrivial": sum(1 for r in results if r["status"] == "ok"),
        "obligations_by_kind": dict(c),
        "paths_explored": sum(r.get("paths", 0) for r in results),
        "samples": [{"obligation": sp["ob"], "type": sp["type"], "paths": r.get("paths"), "verdict": "holds for every bit pattern/value" if not r["findings"] else r["findings"][0]["what"]} for sp, r in list(zip(specs, results))[:: max(1, len(specs) // 5)]][:6],
        "exhaustive": False,
        "rule": "one item = (obligation, type); all 2^w patterns are covered by the solver, not enumerated",
    }


if __name__ == "__main__":
    sys.exit(main_for(sys.modules[__name__]))
