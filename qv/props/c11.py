"""C11 — decompiled expressions describe exactly what the gates do."""
import sys

import z3

from .. import boolq, circorp
from ..common import Stats, item_id, main_for, slice_quick

PID = "C11"
LEVEL = "translation_validation"
ITEM_CAP = {"quick": 120, "thorough": 600}
FUNCS = ["qlasskit.decompiler.decompiler.Decompiler.decompile", "Decompiler.__exps_of_section", "DecompiledSection / DecompilerResults", "qlasskit.qcircuit.qcircuit.QCircuit.copy(vanilla=True), get_key_by_index"]
BOUNDS = {
    "quick": "every gate sequence of length <= 3 on 3 qubits over {X(3), CX(6), CCX(3), H(3), barrier} (16 symbols) + seed slice of the length-4 sequences + 300 fixed-seed circuits on 3-5 qubits over the full gate set; section-entry basis state symbolic",
    "thorough": "every sequence of length <= 4 (69 905 circuits) + 1500 fixed-seed circuits over the full gate set incl. MCX, I, Z/S/T/CZ/CP/SWAP separators and compiled corpus functions (control-flow corpus and the self-reassignment family, both optimizer profiles, circuits of <= 250 gates)",
}
OUTSIDE = "circuits are enumerated; the range check accepts extra barriers inside a section's index range (only non-barrier gates must match the run exactly)"
ASSUMPTIONS = ["classical gate semantics table of engine A", "a 'maximal run' is computed independently from the gate list: consecutive X/CX/CCX/MCX/I gates, barriers skipped, any other gate ends the run"]


def is_zb(g):
    from qlasskit.qcircuit import gates

    return isinstance(g, (gates.I, gates.X, gates.MCX, gates.CCX, gates.CX)) and not isinstance(g, gates.NopGate)


def runs_of(qc):
    """independent computation of the maximal classical runs: list of (first_index, last_index, gates)"""
    from qlasskit.qcircuit import gates

    runs, cur = [], None
    for i, (g, w, p) in enumerate(qc.gates):
        if isinstance(g, gates.NopGate):
            continue
        if is_zb(g):
            if cur is None:
                cur = [i, i, []]
            cur[1] = i
            cur[2].append((g, w, p))
        else:
            if cur is not None:
                runs.append(tuple(cur))
                cur = None
    if cur is not None:
        runs.append(tuple(cur))
    return runs


def judge_circuit(qc, st, solver, decompiler=None):
    """returns list of (kind, what)"""
    from qlasskit.decompiler import Decompiler
    from qlasskit.qcircuit import gates

    before = [(type(g).__name__, list(w), p) for g, w, p in qc.gates]
    try:
        dc = (decompiler or Decompiler()).decompile(qc)
    except Exception as e:
        return [("decompile-raises", "%s: %s" % (type(e).__name__, str(e)[:80]))]
    out = []
    if [(type(g).__name__, list(w), p) for g, w, p in qc.gates] != before:
        out.append(("input-modified", "decompile changed the circuit's gate list"))
    runs = runs_of(qc)
    secs = list(dc)
    if len(secs) != len(runs):
        return out + [("section-count", "%d sections for %d maximal classical runs" % (len(secs), len(runs)))]
    nq = qc.num_qubits
    for k, (sec, (i0, i1, rg)) in enumerate(zip(secs, runs)):
        sg = [(type(g).__name__, list(w)) for g, w, p in sec.gates if not isinstance(g, gates.NopGate)]
        if sg != [(type(g).__name__, list(w)) for g, w, p in rg]:
            out.append(("section-gates", "section %d holds %s, the run is %s" % (k, sg, [(type(g).__name__, list(w)) for g, w, p in rg])))
            continue
        a, b = sec.index
        inrange = [(type(g).__name__, list(w)) for g, w, p in qc.gates[a:b] if not isinstance(g, gates.NopGate)]
        if inrange != sg or a != i0:
            out.append(("section-index", "section %d index %s covers %s, run occupies gates %d..%d" % (k, sec.index, inrange, i0, i1)))
        # meaning
        names = ["q%d" % i for i in range(nq)]
        init = [z3.Bool(n) for n in names]
        fin = boolq.simcirc(rg, init)
        env = dict(zip(names, init))
        seen = {}
        bad_names = []
        for s_, e in sec.expressions:
            nm = s_.name if hasattr(s_, "name") else str(s_)
            if nm not in env:
                bad_names.append(nm)
                continue
            seen[nm] = e
        if bad_names:
            out.append(("section-names", "expressions for unknown qubits %s" % bad_names))
            continue
        diffs = []
        try:
            for i, nm in enumerate(names):
                if nm in seen:
                    diffs.append(z3.Xor(fin[i], boolq.s2z(seen[nm], env)))
                else:
                    diffs.append(z3.Xor(fin[i], init[i]))
        except boolq.FreeSymbol as e:
            out.append(("section-free-symbol", "expression mentions %s" % e))
            continue
        v = st.check(solver, z3.Or(*diffs))
        if v == "sat":
            asg = boolq.model_bools(solver.model(), names)
            bits = [asg[n] for n in names]
            real = boolq.simcirc_concrete(rg, bits)
            exp = {}
            for i, nm in enumerate(names):
                if nm in seen:
                    exp[nm] = boolq.eval_exprs_concrete([(seen_sym(nm), seen[nm])], asg)[nm]
                else:
                    exp[nm] = bits[i]
            wrong = [nm for i, nm in enumerate(names) if exp[nm] != real[i]]
            if wrong:
                out.append(("section-meaning", "section %d on entry state %s: gates leave %s, expressions say %s (qubits %s)" % (k, asg, real, [exp[n] for n in names], wrong)))
            else:
                out.append(("HARNESS", "counterexample did not reproduce"))
        elif v != "unsat":
            out.append(("HARNESS", "solver " + v))
    return out


def seen_sym(nm):
    from sympy import Symbol

    return Symbol(nm)


ALPHA = None


def alpha():
    global ALPHA
    if ALPHA is None:
        ALPHA = circorp.alphabet(3)
    return ALPHA


def make_items(tier, seed):
    A = alpha()
    items = []
    # exhaustive short sequences: batches by prefix
    if tier == "thorough":
        for b in circorp.enum_batches(A, 2, 2):
            items.append(dict(b, fam="enum", nq=3))
    else:
        for b in circorp.enum_batches(A, 1, 2):
            items.append(dict(b, fam="enum", nq=3))
    rnd_n = 1500 if tier == "thorough" else 300
    rc = circorp.fixed_random(rnd_n, 31337)
    for i in range(0, len(rc), 25):
        items.append({"fam": "random", "circuits": rc[i : i + 25]})
    special = [
        {"nq": 3, "gates": []},
        {"nq": 3, "gates": [["barrier", []]]},
        {"nq": 3, "gates": [["barrier", []], ["barrier", []], ["x", [0]], ["barrier", []], ["barrier", []]]},
        {"nq": 3, "gates": [["x", [0]], ["barrier", []], ["cx", [0, 1]], ["h", [2]], ["barrier", []], ["ccx", [0, 1, 2]]]},
        {"nq": 4, "gates": [["mcx", [0, 1, 2, 3]], ["i", [0]], ["mcx", [1, 2, 3, 0]], ["z", [0]], ["x", [1]]]},
        {"nq": 3, "gates": [["h", [0]], ["h", [1]], ["x", [2]], ["cx", [2, 0]]]},
        {"nq": 3, "gates": [["x", [0]], ["swap", [0, 1]], ["x", [0]], ["cp", [0, 1], 0.5], ["cx", [0, 1]], ["barrier", []]]},
        {"nq": 3, "gates": [["cx", [0, 1]], ["cx", [1, 0]], ["cx", [0, 1]]]},
        {"nq": 3, "gates": [["mctrlx", [0, 1, 2]], ["x", [0]]]},
    ]
    items.append({"fam": "special", "circuits": special})
    # long classical runs (hundreds of gates, shapes whose expressions stay small)
    longs = []
    for n in (255, 256, 257, 300, 513, 600):
        longs.append({"nq": 3, "gates": [["h", [2]]] + [["x", [i % 2]] for i in range(n)] + [["h", [0]], ["x", [1]]]})
        longs.append({"nq": 3, "gates": [["cx", [0, 1]]] * n + [["barrier", []], ["h", [1]]]})
        longs.append({"nq": 4, "gates": [["x", [3]]] + [["ccx", [0, 1, 2]], ["cx", [0, 3]]] * (n // 2) + [["z", [0]], ["cx", [0, 3]]]})
    for i in range(0, len(longs), 3):
        items.append({"fam": "special", "circuits": longs[i : i + 3]})
    # the same circuit object decompiled, edited in place to another gate list of the same length, and
    # decompiled again; one Decompiler instance used for two circuits
    rh = circorp.fixed_random(120 if tier == "thorough" else 40, 777, nq_choices=(3,), length=(2, 7))
    hist = []
    for a, b in zip(rh[::2], rh[1::2]):
        n = min(len(a["gates"]), len(b["gates"]))
        hist.append({"nq": 3, "A": a["gates"][:n], "B": b["gates"][:n]})
    hist.append({"nq": 3, "A": [["cx", [0, 1]], ["cx", [0, 1]], ["x", [2]]], "B": [["x", [2]], ["cx", [0, 1]], ["cx", [1, 2]]]})
    hist.append({"nq": 3, "A": [["cx", [0, 1]], ["h", [0]], ["cx", [0, 1]]], "B": [["cx", [0, 1]], ["h", [0]], ["cx", [1, 0]]]})
    for i in range(0, len(hist), 10):
        items.append({"fam": "history", "pairs": hist[i : i + 10]})
    # small circuits embedded into a 13-qubit register (one- and two-digit qubit names)
    import itertools as _it

    emb = []
    for i, seq in enumerate(_it.product(A, repeat=3)):
        if i % (17 if tier == "thorough" else 61) == 0:
            for m in ([3, 10, 7], [10, 2, 11], [11, 1, 0]):
                emb.append({"nq": 13, "gates": [[g[0], [m[q] for q in g[1]]] + g[2:] for g in seq]})
    for i in range(0, len(emb), 30):
        items.append({"fam": "special", "circuits": emb[i : i + 30]})
    # compiled corpus functions
    from .. import corpus

    progs = [p[1] for p in corpus.u_ctl() if corpus.size_ok(p[1], 10, 60)] + [p[1] for p in corpus.u_selfif()[:: (1 if tier == "thorough" else 3)]]
    for i in range(0, len(progs), 6):
        items.append({"fam": "compiled", "progs": progs[i : i + 6], "opt": "fast" if (i // 6) % 2 else "default"})
    if tier == "thorough":
        return items
    extra = [dict(b, fam="enum", nq=3) for b in circorp.enum_batches(A, 2, 2)]
    return slice_quick(items + extra, seed, len(items), 12)


def circuits_of(spec):
    if spec["fam"] == "enum":
        A = alpha()
        first = spec["prefix"] == [A[0]] * len(spec["prefix"])
        for suf in circorp.suffixes(A, spec["depth"]):
            yield spec["nq"], spec["prefix"] + suf
        if first:
            for d in range(len(spec["prefix"])):
                import itertools

                for seq in itertools.product(A, repeat=d):
                    yield spec["nq"], list(seq)
    elif spec["fam"] in ("random", "special"):
        for c in spec["circuits"]:
            yield c["nq"], c["gates"]


def check_item(spec):
    st = Stats()
    res = {"status": "ok", "findings": [], "nontrivial": True}
    solver = z3.Solver()
    solver.set("rlimit", 20_000_000)
    n = 0
    nsec = 0
    bykind = {}
    if spec["fam"] == "compiled":
        from qlasskit import qlassf

        circs = []
        for src in spec["progs"]:
            try:
                if spec.get("opt") == "fast":
                    from qlasskit.boolopt import fastOptimizer

                    qf = qlassf(src, to_compile=True, bool_optimizer=fastOptimizer)
                else:
                    qf = qlassf(src, to_compile=True)
                if qf.circuit().num_gates <= 250:  # stated bound for the compiled family
                    circs.append((src.split("\n")[1].strip(), qf.circuit()))
            except Exception:
                continue
    elif spec["fam"] == "history":
        from qlasskit.decompiler import Decompiler

        circs = []
        shared = Decompiler()
        for pr in spec["pairs"]:
            qc = circorp.build(pr["A"], pr["nq"])
            other = circorp.build(pr["B"], pr["nq"])
            try:
                Decompiler().decompile(qc)
                shared.decompile(qc)
            except Exception:
                pass
            for _ in range(len(qc.gates)):
                qc.gates.pop()
            for g, w, p in other.gates:
                qc.append(g, list(w), p)
            circs.append(("decompile %s; edit in place to %s; decompile" % (circorp.show(pr["A"]), circorp.show(pr["B"])), qc))
            n += 1
            for kind, what in judge_circuit(qc, st, solver, shared):
                bykind.setdefault(kind, []).append("%s [shared Decompiler]: %s" % (circs[-1][0], what))
    else:
        circs = ((circorp.show(gl)[:200], circorp.build(gl, nq)) for nq, gl in circuits_of(spec))
    for label, qc in circs:
        n += 1
        for kind, what in judge_circuit(qc, st, solver):
            bykind.setdefault(kind, []).append("%s: %s" % (label, what))
    for kind, lst in bykind.items():
        if kind == "HARNESS":
            res.update(status="inconclusive", note=lst[0])
            continue
        res["findings"].append({"kind": kind, "what": "%d circuits, e.g. %s" % (len(lst), " || ".join(lst[:2])), "cex": {"circuits": lst[:5]}, "replayed": True})
    res["circuits"] = n
    # sensitivity: a decompiled expression with one negation added must be refuted
    try:
        qc0 = circorp.build([["x", [0]], ["cx", [0, 1]], ["ccx", [0, 1, 2]]], 3)
        from qlasskit.decompiler import Decompiler
        from sympy import Not

        sec = list(Decompiler().decompile(qc0))[0]
        names = ["q0", "q1", "q2"]
        init = [z3.Bool(x) for x in names]
        fin = boolq.simcirc(sec.gates, init)
        env = dict(zip(names, init))
        sname, e = sec.expressions[-1]
        i = names.index(sname.name)
        res["negctl"] = st.check(solver, z3.Xor(fin[i], boolq.s2z(Not(e), env))) == "sat"
    except Exception:
        res["negctl"] = False
    return st.into(res)


def coverage(specs, results):
    import collections

    fam = collections.Counter()
    for sp, r in zip(specs, results):
        fam[sp["fam"]] += r.get("circuits", 0)
    total = sum(r.get("circuits", 0) for r in results)
    return {
        "programs": total,
        "disagreements_checked": sum(1 for r in results if r["findings"]),
        "samples": [{"circuit": "x0 barrier cx01 h2 barrier ccx012", "verdict": "2 sections; each section's expressions equal the symbolic run of its gates on every entry state"}, {"batch": specs[0].get("prefix"), "circuits": results[0].get("circuits")}],
        "circuits_by_family": dict(fam),
        "distinct_nontrivial": total,
        "evaluations": total,
        "negative_controls": {"run": sum(1 for r in results if "negctl" in r), "detected": sum(1 for r in results if r.get("negctl"))},
        "exhaustive": True,
        "rule": "items are batches of circuits; every circuit is decompiled and each section is compared with the symbolic run of its gates (one query per section); the enumerated family is complete up to the stated length",
    }


if __name__ == "__main__":
    boolq.selftest()
    sys.exit(main_for(sys.modules[__name__]))
