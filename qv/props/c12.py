"""C12 — the circuit boolean optimizer returns an equivalent, no larger circuit."""
import random
import sys

import z3

from .. import boolq, circorp, qamp
from ..common import Stats, item_id, main_for, slice_quick
from . import c11

PID = "C12"
LEVEL = "translation_validation"
ITEM_CAP = {"quick": 180, "thorough": 900}
FUNCS = ["qlasskit.decompiler.decopt.circuit_boolean_optimizer (no preserve list)", "decopt.custom_simplify_logic2", "qlasskit.compiler.exprs_to_quantum -> InternalCompiler.compile(uncompute=False)", "Decompiler.decompile"]
BOUNDS = {
    "quick": "all classical sequences of length <= 4 on 3 qubits over {X,CX,CCX,barrier} (13 symbols), all H-interleaved sequences of length <= 2 + seed slice of length 4, 200 fixed-seed circuits on 3-5 qubits over the full gate set, 15 compiled corpus functions; basis state symbolic",
    "thorough": "all sequences of length <= 4 over the 16-symbol alphabet, 1000 fixed-seed circuits, 60 compiled corpus functions",
}
OUTSIDE = "circuits enumerated; preserve= lists; compilers other than internal; non-classical circuits are compared exactly in Z[zeta_N] on <= 6 qubits (phases must be multiples of 2pi/128)"
ASSUMPTIONS = ["gate semantics tables of engines A and D (validated against a dense numpy unitary on replay)", "equality of unitaries is exact equality (no global phase slack): the optimizer only rewrites classical sections"]


def fingerprint(qc):
    return [(type(g).__name__, g.name, list(w), p) for g, w, p in qc.gates]


def judge(label, qc, st, solver):
    from qlasskit.decompiler import circuit_boolean_optimizer

    out = []
    fp = fingerprint(qc)
    nq0 = qc.num_qubits
    try:
        qn = circuit_boolean_optimizer(qc)
    except Exception as e:
        return [("optimizer-raises", "%s: %s" % (type(e).__name__, str(e)[:80]))]
    if fingerprint(qc) != fp or qc.num_qubits != nq0:
        out.append(("input-modified", "optimizer changed its input circuit"))
    if qn.num_qubits != qc.num_qubits:
        out.append(("qubit-count", "%d -> %d qubits" % (qc.num_qubits, qn.num_qubits)))
        return out
    if len(qn.gates) > len(qc.gates):
        out.append(("larger", "%d -> %d gates" % (len(qc.gates), len(qn.gates))))
    nq = qc.num_qubits
    names = ["q%d" % i for i in range(nq)]
    xs = [z3.Bool(n) for n in names]
    classical = all(boolq.is_classical(g) for g, w, p in qc.gates) and all(boolq.is_classical(g) for g, w, p in qn.gates)
    try:
        if classical:
            fa = boolq.simcirc(qc.gates, xs)
            fb = boolq.simcirc(qn.gates, xs)
            q = z3.Or(*[z3.Xor(a, b) for a, b in zip(fa, fb)])
        else:
            if nq > 6:
                return out + [("SKIP", "non-classical circuit on %d qubits" % nq)]
            q, info = qamp.equal_unitaries_query(qc.gates, qn.gates, nq, xs)
    except (qamp.Unsupported, boolq.Unsupported) as e:
        return out + [("SKIP", str(e))]
    v = st.check(solver, q)
    if v == "sat":
        asg = boolq.model_bools(solver.model(), names)
        bits = [asg[n] for n in names]
        if classical:
            ra = boolq.simcirc_concrete(qc.gates, bits)
            rb = boolq.simcirc_concrete(qn.gates, bits)
            if ra != rb:
                out.append(("not-equivalent", "basis state %s: original -> %s, optimized -> %s (optimized gates: %s)" % (bits, ra, rb, [(g.name, w) for g, w, p in qn.gates])))
            else:
                out.append(("HARNESS", "classical counterexample did not reproduce"))
        else:
            import numpy as np

            k = sum(1 << i for i, b in enumerate(bits) if b)
            ua = qamp.dense_unitary(qc.gates, nq)[:, k]
            ub = qamp.dense_unitary(qn.gates, nq)[:, k]
            if not np.allclose(ua, ub, atol=1e-9):
                out.append(("not-equivalent", "basis state %s: output states differ (max |diff| %.3f); optimized gates: %s" % (bits, float(np.max(np.abs(ua - ub))), [(g.name, w) for g, w, p in qn.gates])))
            else:
                out.append(("HARNESS", "amplitude counterexample did not reproduce numerically"))
    elif v != "unsat":
        out.append(("HARNESS", "solver " + v))
    return out


def alpha_i():
    """classical alphabet on 3 qubits plus the identity gate and Hadamards (sections that end
    before the end of the circuit)"""
    return circorp.alphabet(3, h=True) + [["i", [0]], ["i", [1]]]


def alpha_4():
    """classical gates on 4 qubits including the 3-controlled X"""
    import itertools as it

    A = [["x", [q]] for q in range(4)]
    A += [["cx", [a, b]] for a, b in it.permutations(range(4), 2)]
    for t in range(4):
        cs = [q for q in range(4) if q != t]
        for pair in it.combinations(cs, 2):
            A.append(["ccx", list(pair) + [t]])
        A.append(["mcx", cs + [t]])
    return A


ALPHA_C = None


def alpha_c():
    global ALPHA_C
    if ALPHA_C is None:
        ALPHA_C = circorp.alphabet(3, h=False)
    return ALPHA_C


def make_items(tier, seed):
    items = []
    A16 = c11.alpha()
    Ac = alpha_c()
    if tier == "thorough":
        for b in circorp.enum_batches(A16, 2, 2):
            items.append(dict(b, fam="enum16", nq=3))
    else:
        for b in circorp.enum_batches(Ac, 2, 2):
            items.append(dict(b, fam="enumc", nq=3))
        for b in circorp.enum_batches(A16, 1, 1):
            items.append(dict(b, fam="enum16", nq=3))
    for b in circorp.enum_batches(alpha_i(), 1, 2):
        items.append(dict(b, fam="enumi", nq=3))
    for b in circorp.enum_batches(alpha_4(), 1, 2 if tier == "thorough" else 1):
        items.append(dict(b, fam="enum4", nq=4))
    rc = circorp.fixed_random(1000 if tier == "thorough" else 200, 4711, kinds=["x", "x", "cx", "cx", "cx", "ccx", "h", "z", "s", "t", "cz", "swap", "cp", "mcx3", "barrier"])
    for i in range(0, len(rc), 20):
        items.append({"fam": "random", "circuits": rc[i : i + 20]})
    special = [
        {"nq": 2, "gates": [["cx", [0, 1]], ["cx", [1, 0]], ["cx", [0, 1]]]},
        {"nq": 3, "gates": [["cx", [0, 1]], ["cx", [1, 0]], ["cx", [0, 1]], ["h", [2]], ["cx", [1, 2]], ["cx", [2, 1]], ["cx", [1, 2]]]},
        {"nq": 3, "gates": [["x", [0]], ["x", [0]], ["cx", [0, 1]], ["cx", [0, 1]]]},
        {"nq": 3, "gates": [["ccx", [0, 1, 2]], ["cx", [0, 1]], ["ccx", [0, 1, 2]], ["cx", [0, 1]]]},
        {"nq": 3, "gates": [["cx", [0, 1]], ["cx", [1, 0]]]},
        {"nq": 3, "gates": [["cx", [0, 2]], ["cx", [1, 2]], ["cx", [0, 2]], ["x", [2]], ["x", [2]], ["cx", [1, 2]]]},
        {"nq": 4, "gates": [["mcx", [0, 1, 2, 3]], ["cx", [0, 3]], ["mcx", [0, 1, 2, 3]]]},
        {"nq": 4, "gates": [["mcx", [0, 1, 2, 3]], ["ccx", [0, 2, 3]]]},
        {"nq": 5, "gates": [["mcx", [0, 1, 2, 4]], ["mcx", [0, 3, 2, 4]], ["ccx", [0, 2, 4]]]},
        {"nq": 3, "gates": [["x", [0]], ["i", [0]]]},
        {"nq": 3, "gates": [["i", [0]], ["x", [0]], ["i", [0]]]},
        {"nq": 3, "gates": [["h", [0]], ["cx", [0, 1]], ["cx", [1, 0]], ["cx", [0, 1]], ["h", [1]]]},
        {"nq": 3, "gates": [["cx", [0, 1]], ["cx", [1, 0]], ["cx", [0, 1]], ["x", [2]]]},
        {"nq": 3, "gates": [["x", [2]], ["cx", [0, 1]], ["cx", [1, 0]], ["cx", [0, 1]]]},
        {"nq": 3, "gates": [["cx", [0, 1]], ["cx", [1, 0]], ["x", [2]], ["cx", [0, 1]]]},
        {"nq": 4, "gates": [["cx", [0, 1]], ["cx", [1, 0]], ["cx", [0, 1]], ["cx", [2, 3]]]},
        {"nq": 4, "gates": [["cx", [0, 1]], ["cx", [1, 0]], ["cx", [0, 1]], ["ccx", [0, 1, 2]], ["x", [3]]]},
        {"nq": 3, "gates": [["cx", [1, 2]], ["cx", [2, 1]], ["cx", [1, 2]], ["x", [0]], ["x", [1]]]},
        {"nq": 3, "gates": [["x", [1]], ["barrier", []], ["cx", [1, 0]], ["barrier", []], ["cx", [1, 0]], ["z", [0]], ["x", [1]]]},
    ]
    items.append({"fam": "special", "circuits": special})
    # long classical runs: sections of 16..40 gates that reduce to the identity or to plain X gates
    rl = random.Random(1616)
    longs = []
    for n in (15, 16, 17, 18, 20, 24, 31, 32, 33, 40):
        longs.append({"nq": 3, "gates": [["x", [0]]] * n + [["h", [0]]]})
        longs.append({"nq": 3, "gates": [["h", [1]]] + [["x", [i % 2]] for i in range(n)] + [["h", [0]], ["x", [0]]]})
        pal = [rl.choice([["x", [0]], ["x", [1]], ["cx", [0, 1]], ["cx", [1, 2]], ["ccx", [0, 1, 2]]]) for _ in range(n // 2)]
        longs.append({"nq": 3, "gates": pal + ([["x", [2]]] if n % 2 else []) + pal[::-1] + [["h", [2]], ["cx", [2, 0]]]})
    for i in range(0, len(longs), 6):
        items.append({"fam": "long-runs", "circuits": longs[i : i + 6]})
    # small classical circuits embedded into a 13-qubit register through an injective wire map
    # (qubit names of one and of two digits, sections that touch far-apart qubits)
    import itertools as _it

    base = [c["gates"] for c in special if c["nq"] <= 3 and all(g[0] in ("x", "cx", "ccx", "barrier") for g in c["gates"])]
    base += [list(seq) for i, seq in enumerate(_it.product(Ac, repeat=3)) if i % (11 if tier == "thorough" else 29) == 0]
    base += [[["cx", [0, 1]], ["x", [1]], ["cx", [0, 1]]], [["ccx", [0, 1, 2]], ["x", [2]], ["ccx", [0, 1, 2]], ["x", [0]]], [["cx", [1, 0]], ["cx", [2, 0]], ["cx", [1, 0]]]]
    emb = []
    for gl in base:
        for m in ([3, 10, 7], [10, 2, 11], [11, 1, 0], [2, 12, 5]):
            emb.append({"nq": 13, "gates": [[g[0], [m[q] for q in g[1]]] + g[2:] for g in gl]})
    for i in range(0, len(emb), 40):
        items.append({"fam": "embedded", "circuits": emb[i : i + 40]})
    # the same circuit object optimized, edited in place to another gate list of the same length and
    # optimized again (results must not be remembered per object / per length)
    rh = circorp.fixed_random(160 if tier == "thorough" else 60, 909, nq_choices=(3,), length=(2, 7), kinds=["x", "x", "cx", "cx", "cx", "ccx", "h", "barrier"])
    hist = []
    for a, b in zip(rh[::2], rh[1::2]):
        n = min(len(a["gates"]), len(b["gates"]))
        hist.append({"nq": 3, "A": a["gates"][:n], "B": b["gates"][:n]})
    hist.append({"nq": 3, "A": [["cx", [0, 1]], ["cx", [0, 1]], ["x", [2]]], "B": [["x", [2]], ["cx", [0, 1]], ["cx", [1, 2]]]})
    for i in range(0, len(hist), 10):
        items.append({"fam": "history", "pairs": hist[i : i + 10]})
    from .. import corpus

    progs = [p[1] for p in corpus.u_ctl()[:: (2 if tier == "thorough" else 7)] if corpus.size_ok(p[1], 8, 50)]
    for i in range(0, len(progs), 3):
        items.append({"fam": "compiled", "progs": progs[i : i + 3]})
    if tier == "thorough":
        return items
    extra = [dict(b, fam="enum16", nq=3) for b in circorp.enum_batches(A16, 2, 2)]
    return slice_quick(items + extra, seed, len(items), 10)


def circuits_of(spec):
    import itertools

    if spec["fam"] in ("enum16", "enumc", "enumi", "enum4"):
        A = {"enum16": c11.alpha, "enumc": alpha_c, "enumi": alpha_i, "enum4": alpha_4}[spec["fam"]]()
        first = spec["prefix"] == [A[0]] * len(spec["prefix"])
        for suf in circorp.suffixes(A, spec["depth"]):
            yield spec["nq"], spec["prefix"] + suf
        if first:
            for d in range(len(spec["prefix"])):
                for seq in itertools.product(A, repeat=d):
                    yield spec["nq"], list(seq)
    else:
        for c in spec["circuits"]:
            yield c["nq"], c["gates"]


def check_item(spec):
    st = Stats()
    res = {"status": "ok", "findings": [], "nontrivial": True}
    solver = z3.Solver()
    solver.set("rlimit", 50_000_000)
    bykind = {}
    n = changed = skipped = 0
    if spec["fam"] == "compiled":
        from qlasskit import qlassf

        circs = []
        for src in spec["progs"]:
            try:
                qf = qlassf(src, to_compile=True)
                if qf.circuit().num_qubits <= 14 and len(qf.circuit().gates) <= 120:
                    circs.append((src.split("\n")[1].strip(), qf.circuit()))
            except Exception:
                continue
    elif spec["fam"] == "history":
        from qlasskit.decompiler import circuit_boolean_optimizer

        circs = []
        for pr in spec["pairs"]:
            qc = circorp.build(pr["A"], pr["nq"])
            other = circorp.build(pr["B"], pr["nq"])
            try:
                circuit_boolean_optimizer(qc)
            except Exception:
                pass
            for _ in range(len(qc.gates)):
                qc.gates.pop()
            for g, w, p in other.gates:
                qc.append(g, list(w), p)
            circs.append(("optimize %s; edit in place to %s; optimize" % (circorp.show(pr["A"]), circorp.show(pr["B"])), qc))
    else:
        circs = ((circorp.show(gl), circorp.build(gl, nq)) for nq, gl in circuits_of(spec))
    for label, qc in circs:
        n += 1
        for kind, what in judge(label, qc, st, solver):
            if kind == "SKIP":
                skipped += 1
                continue
            bykind.setdefault(kind, []).append("%s: %s" % (label, what))
    for kind, lst in bykind.items():
        if kind == "HARNESS":
            res.update(status="inconclusive", note=lst[0])
            continue
        res["findings"].append({"kind": kind, "what": "%d circuits, e.g. %s" % (len(lst), " || ".join(lst[:2])), "cex": {"circuits": lst[:6]}, "replayed": True})
    res["circuits"] = n
    res["skipped"] = skipped
    # sensitivity: a circuit and the same circuit minus its last gate must be told apart
    a = circorp.build([["x", [0]], ["cx", [0, 1]], ["h", [2]], ["ccx", [0, 1, 2]]], 3)
    xs = [z3.Bool("x%d" % i) for i in range(3)]
    q, _ = qamp.equal_unitaries_query(a.gates, a.gates[:-1], 3, xs)
    res["negctl"] = st.check(solver, q) == "sat"
    return st.into(res)


def coverage(specs, results):
    import collections

    fam = collections.Counter()
    for sp, r in zip(specs, results):
        fam[sp["fam"]] += r.get("circuits", 0)
    total = sum(r.get("circuits", 0) for r in results)
    return {
        "programs": total,
        "disagreements_checked": sum(1 for r in results if r["findings"]),
        "samples": [{"circuit": "cx01 cx10 cx01 (swap from three CX)", "verdict": "optimized circuit must still exchange q0 and q1 on every basis state"}, {"batch_prefix": specs[0].get("prefix"), "circuits": results[0].get("circuits")}],
        "circuits_by_family": dict(fam),
        "skipped_outside_engine": sum(r.get("skipped", 0) for r in results),
        "distinct_nontrivial": total,
        "evaluations": total,
        "negative_controls": {"run": sum(1 for r in results if "negctl" in r), "detected": sum(1 for r in results if r.get("negctl"))},
        "exhaustive": True,
        "rule": "every circuit is optimized by the real optimizer; equivalence on all basis states is one z3 query (Boolean for classical circuits, exact cyclotomic amplitudes otherwise)",
    }


if __name__ == "__main__":
    qamp.selftest()
    boolq.selftest()
    sys.exit(main_for(sys.modules[__name__]))
