"""C13 — exports denote the same operation on the same qubits."""
import math
import random
import re
import sys

import z3

from .. import boolq, circorp, qamp
from ..common import Stats, item_id, main_for, slice_quick

PID = "C13"
LEVEL = "translation_validation"
ITEM_CAP = {"quick": 240, "thorough": 900}
FUNCS = ["qlasskit.qcircuit.qcircuit.QCircuit.export", "exporter_qiskit.QiskitExporter.export (circuit, gate)", "exporter_cirq.CirqExporter.export (circuit, gate)", "exporter_sympy.SympyExporter.export (circuit, gate)", "exporter_qasm.QasmExporter.export_v2 / export_v3 (circuit, gate)", "QCircuit.get_key_by_index"]
BOUNDS = {
    "quick": "120 fixed-seed circuits on 2-5 qubits per exporter over its exportable gate set (MCX, multi-controlled Z, CP with dyadic phases, SWAP, barriers) + 12 compiled corpus functions (aliased qubit names) for qiskit/QASM; modes {circuit, gate}; basis state symbolic, amplitudes exact",
    "thorough": "500 circuits per exporter, 40 compiled functions",
}
OUTSIDE = "pennylane and qutip exporters (libraries absent); the third-party meaning of named gates is a trusted table (x, cx, ccx, mcx, c..cz, cp(theta), swap, h, s, t, y, z; cirq XPow/ZPow/CZPow exponents; sympy XGate/CNOT/CGate/SWAP/H); circuits enumerated"
ASSUMPTIONS = ["re-import readers: qiskit circuit.data/find_bit, cirq decompose_once on LineQubits, sympy Mul.args reversed, a 60-line OpenQASM parser binding formal k to actual k", "engine D gate table; phases are compared exactly (QASM: as printed)"]

KINDS = {
    "qiskit": ["x", "y", "z", "h", "s", "t", "cx", "ccx", "cz", "cp", "swap", "mcx3", "mcz", "mczv", "mcxv", "barrier"],
    "cirq": ["x", "y", "z", "h", "s", "t", "cx", "ccx", "cz", "cp", "swap", "mcx3", "mcz", "mczv", "mcxv"],
    "sympy": ["x", "h", "cx", "ccx", "swap", "mcx3", "barrier"],
    "qasm2": ["x", "y", "z", "h", "s", "t", "cx", "ccx", "cz", "cp", "swap", "mcx3", "mcz", "mczv", "mcxv", "barrier"],
    "qasm3": ["x", "y", "z", "h", "s", "t", "cx", "ccx", "cz", "cp", "swap", "mcx3", "mcz", "mczv", "mcxv", "barrier"],
}


def mk(kind, nc, wires, param=None):
    from qlasskit.qcircuit import gates

    base = {"x": gates.X, "y": gates.Y, "z": gates.Z, "h": gates.H, "s": gates.S, "t": gates.T, "p": gates.P, "swap": gates.Swap, "i": gates.I}[kind]()
    g = gates.MCtrl(base, nc) if nc else base
    return (g, list(wires), param)


# ------------------------------------------------------------------ readers
def read_qiskit(obj, mode):
    qc = obj if mode == "circuit" else obj.definition
    out = []
    for ins in qc.data:
        op = ins.operation
        ws = [qc.find_bit(b).index for b in ins.qubits]
        name = op.name
        if name == "barrier":
            continue
        nc = getattr(op, "num_ctrl_qubits", 0) or 0
        base = getattr(op, "base_gate", None)
        kind = base.name if (nc and base is not None) else name
        kind = {"id": "i"}.get(kind, kind)
        if kind not in ("x", "y", "z", "h", "s", "t", "p", "swap", "i"):
            raise qamp.Unsupported("qiskit operation %s" % name)
        par = float(op.params[0]) if op.params else None
        out.append(mk(kind, nc, ws, par))
    return qc.num_qubits, out


def read_cirq(obj, mode, nq):
    import cirq

    if mode == "gate":
        gate_obj = obj()
        ops = list(cirq.decompose_once(gate_obj.on(*cirq.LineQubit.range(nq))))
        # the same gate object applied to other qubits must act on those qubits
        if nq:
            perm = list(reversed(range(nq, 2 * nq)))
            ops2 = list(cirq.decompose_once(gate_obj.on(*[cirq.LineQubit(i) for i in perm])))
            w1 = [[q.x for q in op.qubits] for op in ops]
            w2 = [[q.x for q in op.qubits] for op in ops2]
            if len(w1) != len(w2) or any([perm[i] for i in a] != b for a, b in zip(w1, w2)):
                raise WidthMismatch("the exported gate object applied to qubits %s acts on %s" % (perm, sorted({x for w in w2 for x in w})))
    else:
        tops = list(obj.all_operations())
        ops = []
        for op in tops:
            ops += list(cirq.decompose_once(op))
    out = []

    def base_kind(g):
        if isinstance(g, cirq.XPowGate) and g.exponent == 1 and g.global_shift == 0:
            return "x", None
        if isinstance(g, cirq.YPowGate) and g.exponent == 1 and g.global_shift == 0:
            return "y", None
        if isinstance(g, cirq.HPowGate) and g.exponent == 1 and g.global_shift == 0:
            return "h", None
        if isinstance(g, cirq.ZPowGate) and g.global_shift == 0:
            return "p", math.pi * g.exponent
        if isinstance(g, cirq.SwapPowGate) and g.exponent == 1:
            return "swap", None
        if isinstance(g, cirq.IdentityGate):
            return "i", None
        raise qamp.Unsupported("cirq gate %r" % (g,))

    for op in ops:
        g = op.gate
        ws = [q.x for q in op.qubits]
        if isinstance(g, cirq.ControlledGate):
            k, par = base_kind(g.sub_gate)
            out.append(mk(k, g.num_controls(), ws, par))
        elif isinstance(g, cirq.CXPowGate) and g.exponent == 1:
            out.append(mk("x", 1, ws))
        elif isinstance(g, cirq.CCXPowGate) and g.exponent == 1:
            out.append(mk("x", 2, ws))
        elif isinstance(g, cirq.CZPowGate) and g.global_shift == 0:
            out.append(mk("p", 1, ws, math.pi * g.exponent))
        elif isinstance(g, cirq.CCZPowGate) and g.global_shift == 0:
            out.append(mk("p", 2, ws, math.pi * g.exponent))
        else:
            k, par = base_kind(g)
            out.append(mk(k, 0, ws, par))
    return out


class WidthMismatch(Exception):
    pass


def read_sympy(obj, mode, nq=None):
    from sympy import Mul
    from sympy.physics.quantum.gate import CGate, CNotGate, HadamardGate, SwapGate, XGate
    from sympy.physics.quantum.qubit import Qubit

    if obj is None:
        return []
    args = list(obj.args) if isinstance(obj, Mul) else [obj]
    from sympy import Integer, Pow

    expanded = []
    for a in args:
        if isinstance(a, Pow) and isinstance(a.exp, Integer) and int(a.exp) >= 0:
            expanded += [a.base] * int(a.exp)
        elif a == 1:
            continue
        else:
            expanded.append(a)
    args = expanded
    out = []
    for a in reversed(args):
        if isinstance(a, Qubit):
            if any(int(v) for v in a.qubit_values):
                raise qamp.Unsupported("sympy circuit does not start from |0..0>")
            if nq is not None and len(a.qubit_values) != nq:
                raise WidthMismatch("sympy circuit acts on a %d-qubit register, the circuit has %d qubits" % (len(a.qubit_values), nq))
            continue
        if isinstance(a, CNotGate):
            out.append(mk("x", 1, [int(a.controls[0]), int(a.targets[0])]))
        elif isinstance(a, CGate):
            inner = a.gate
            if not isinstance(inner, XGate):
                raise qamp.Unsupported("sympy CGate of %r" % (inner,))
            cs = [int(c) for c in a.controls]
            out.append(mk("x", len(cs), cs + [int(inner.targets[0])]))
        elif isinstance(a, SwapGate):
            out.append(mk("swap", 0, [int(t) for t in a.targets]))
        elif isinstance(a, HadamardGate):
            out.append(mk("h", 0, [int(a.targets[0])]))
        elif isinstance(a, XGate):
            out.append(mk("x", 0, [int(a.targets[0])]))
        else:
            raise qamp.Unsupported("sympy factor %r" % (a,))
    return out


QASM_GATE = re.compile(r"^(c*)(x|y|z|h|s|t|p|swap|i)$")


def read_qasm(text, mode, version, nq, name):
    """returns (imported gate list, structural findings list)"""
    finds = []
    lines = [l.strip() for l in text.split("\n")]
    lines = [l for l in lines if l]
    i = 0
    if mode == "circuit":
        want = "OPENQASM %s;" % ("3.0" if version == 3 else "2.0")
        if lines[i] != want:
            finds.append(("qasm-header", "first line %r, expected %r" % (lines[i], want)))
        i += 1
        if version == 2:
            if lines[i] != 'include "qelib1.inc";':
                finds.append(("qasm-header", "missing include: %r" % lines[i]))
            else:
                i += 1
            m = re.fullmatch(r"qreg q\[(\d+)\];", lines[i])
            if not m or int(m.group(1)) != nq:
                finds.append(("qasm-qreg", "register line %r for %d qubits" % (lines[i], nq)))
            if m:
                i += 1
    m = re.fullmatch(r"gate (\S+) (.*)\{", lines[i])
    if not m:
        raise qamp.Unsupported("no gate declaration: %r" % lines[i])
    gname = m.group(1)
    formals = m.group(2).split()
    i += 1
    # the property does not fix the gate's name, but the declaration must not shadow (or, through
    # its own body, call) one of the mnemonics gate bodies are written in
    if QASM_GATE.fullmatch(gname.lower()) or not gname.startswith(name):
        finds.append(("qasm-name", "gate declared as %r (circuit named %r): the name is a gate mnemonic or unrelated to the circuit" % (gname, name)))
    if len(formals) != nq or len(set(formals)) != len(formals):
        finds.append(("qasm-formals", "gate declares %d formal parameters (%s) for %d qubits" % (len(formals), " ".join(formals)[:80], nq)))
    body = []
    while lines[i] != "}":
        body.append(lines[i])
        i += 1
    i += 1
    actual_index = None
    if mode == "circuit":
        m = re.fullmatch(r"(\S+) (.*);", lines[i])
        if not m or m.group(1) != gname:
            finds.append(("qasm-application", "application line %r" % lines[i]))
        else:
            acts = [a.strip() for a in m.group(2).split(",")]
            idx = []
            for a in acts:
                mm = re.fullmatch(r"q\[(\d+)\]", a)
                idx.append(int(mm.group(1)) if mm else None)
            if idx != list(range(nq)):
                finds.append(("qasm-application", "gate applied to %s, expected q[0..%d]" % (acts, nq - 1)))
            actual_index = idx
    # formal k is bound to the k-th actual, i.e. to qubit k
    pos = {}
    for k, f in enumerate(formals):
        pos.setdefault(f, k)
    out = []
    for l in body:
        m = re.fullmatch(r"([a-z]+)(?:\(([^)]*)\))? (.*)", l.rstrip(";"))
        if not m:
            raise qamp.Unsupported("body line %r" % l)
        gm = QASM_GATE.fullmatch(m.group(1))
        if not gm and m.group(1) in ("mcx", "toffoli", "cnot"):
            # other accepted spellings of (multi-)controlled X: all but the last operand control
            gm = QASM_GATE.fullmatch("c" * (len(m.group(3).split()) - 1) + "x")
        if not gm:
            # the exporter's vocabulary is c..c + {x,y,z,h,s,t,p,swap,i}; any other mnemonic does
            # not identify the gate that was applied
            finds.append(("qasm-unknown-gate", "body line %r: mnemonic %r does not name a gate" % (l, m.group(1))))
            return None, finds
        ws = []
        for nm in m.group(3).split():
            if nm not in pos:
                finds.append(("qasm-unknown-qubit", "body uses %r which is not a formal parameter" % nm))
                return None, finds
            k = pos[nm]
            if actual_index is not None and k < len(actual_index) and actual_index[k] is not None:
                k = actual_index[k]
            ws.append(k)
        par = float(m.group(2)) if m.group(2) else None
        out.append(mk(gm.group(2), len(gm.group(1)), ws, par))
    return out, finds


# ------------------------------------------------------------------ items
def make_items(tier, seed):
    n = 500 if tier == "thorough" else 120
    items = []
    for fw, kinds in KINDS.items():
        rc = circorp.fixed_random(n, 99 + len(fw), nq_choices=(2, 3, 4, 5), length=(0, 9), kinds=[k for k in kinds for _ in (range(3) if k in ("cx", "ccx", "cp", "mcx3", "mcz", "mczv", "mcxv") else range(1))])
        for i in range(0, len(rc), 20):
            for mode in ("circuit", "gate"):
                items.append({"fw": fw, "mode": mode, "circuits": rc[i : i + 20]})
    items.append({"fw": "cirq", "mode": "circuit", "circuits": [{"nq": 2, "gates": [["x", [0]], ["barrier", []], ["cx", [0, 1]]]}]})
    for fw in ("qasm2", "qasm3", "qiskit", "cirq", "sympy"):
        for mode in ("circuit", "gate") if fw != "sympy" else ("circuit",):
            items.append({"fw": fw, "mode": mode, "circuits": [h for h in HIST if fw != "sympy" or all(g[0] in ("x", "cx", "ccx", "h") for g in h["gates"] + h.get("then", []))], "fam": "history"})
    for fw in ("qasm2", "qasm3"):
        items.append({"fw": fw, "mode": "circuit", "ob": "phase-format"})
    from .. import corpus

    progs = [
        "def prog(a: bool, b: bool) -> bool:\n    c = a and b\n    return c\n",
        "def prog(a: bool) -> Tuple[bool, bool]:\n    b = not a\n    return (b, b)\n",
        "def prog(a: Qint[2]) -> Qint[2]:\n    b = a + 1\n    return b\n",
        "def prog(a: bool, b: bool) -> bool:\n    return a ^ b\n",
        "def prog(a: Qint[2]) -> Qint[4]:\n    return a\n",
        "def prog(a: Qint[2], a_0: bool) -> bool:\n    return a[0] and not a_0\n",
        "def prog(a_1: bool, a: Qint[2]) -> Qint[2]:\n    return a if a_1 else 1\n",
        "def prog(x: Tuple[bool, bool], x_0: bool, x_1: bool) -> bool:\n    return (x[0] and x_1) ^ (x[1] and x_0)\n",
        "def prog(a: Qint[4]) -> Qint[4]:\n    return a >> 1\n",
        "def prog(a: bool, b: bool) -> Tuple[bool, bool]:\n    return (a and b, a and b)\n",
    ] + [p[1] for p in corpus.u_ctl()[:: (3 if tier == "thorough" else 9)] if corpus.size_ok(p[1], 6, 50)]
    for fw in ("qiskit", "qasm2", "qasm3", "cirq", "sympy"):
        for i in range(0, len(progs), 4):
            items.append({"fw": fw, "mode": "circuit", "progs": progs[i : i + 4]})
            if fw.startswith("qasm"):
                items.append({"fw": fw, "mode": "gate", "progs": progs[i : i + 4]})
    # the textual exporters are cheap to read back: the whole control-flow corpus and a slice of the
    # re-assignment families (scratch qubit naming, recycled ancillas) go through QASM 3
    wide = [p[1] for p in corpus.u_ctl() if corpus.size_ok(p[1], 8, 60)] + [p[1] for p in corpus.u_selfif()[:: (1 if tier == "thorough" else 3)]] + [p[1] for p in corpus.u_stale()[:: (2 if tier == "thorough" else 6)]]
    from .. import corpus2

    wide += [p[1] for p in corpus2.u_prog2(500) if corpus.size_ok(p[1], 8, 70)][: (200 if tier == "thorough" else 48)]
    wide = [p for p in wide if p not in progs]
    for i in range(0, len(wide), 6):
        items.append({"fw": "qasm3", "mode": "circuit", "progs": wide[i : i + 6], "opt": "fast" if (i // 6) % 2 else "default"})
    return items


def build_hist(c, fw, mode):
    """a circuit reached through a short history: optional qubit names ([name, index] pairs applied
    with qc[name] = index, which may leave a qubit without a name of its own), and optionally an
    export in between followed by more renames/gates (the export judged is that of the final state)"""
    qc = circorp.build(c["gates"], c["nq"], c.get("cname", "qc"))
    for nm, i in c.get("names", []):
        qc[nm] = i
    if "then" in c or "then_names" in c:
        try:
            export(qc, fw, mode)
        except Exception:
            pass
        for nm, i in c.get("then_names", []):
            qc[nm] = i
        more = circorp.build(c.get("then", []), c["nq"], c.get("cname", "qc"))
        for g, w, p in more.gates:
            qc.append(g, list(w), p)
    return qc


HIST = [
    # names that collide with the fallback spelling of a nameless qubit
    {"nq": 4, "gates": [["x", [3]], ["ccx", [0, 3, 2]], ["cx", [1, 3]]], "names": [["q3", 1]]},
    {"nq": 4, "gates": [["h", [2]], ["cx", [2, 3]], ["cx", [3, 0]]], "names": [["q3", 0], ["q2", 3]]},
    {"nq": 3, "gates": [["x", [0]], ["cx", [0, 2]], ["cx", [2, 1]]], "names": [["q2", 0], ["_q2", 1]]},
    {"nq": 3, "gates": [["cx", [0, 1]], ["ccx", [0, 1, 2]]], "names": [["a", 0], ["a", 1], ["b", 2]]},
    # export, then rename / extend, then export again
    {"nq": 3, "gates": [["x", [0]], ["cx", [0, 1]]], "then": [["cx", [1, 2]], ["h", [0]]]},
    {"nq": 3, "gates": [["x", [0]], ["cx", [0, 1]]], "names": [["a", 0], ["b", 1], ["c", 2]], "then_names": [["a", 1]], "then": [["cx", [0, 1]], ["cx", [1, 2]]]},
    {"nq": 4, "gates": [["cx", [0, 1]], ["ccx", [0, 1, 2]]], "names": [["a", 0], ["b", 1], ["c", 2], ["d", 3]], "then_names": [["d", 0], ["a", 3]], "then": [["cx", [0, 3]], ["x", [3]], ["ccx", [3, 0, 1]]]},
    {"nq": 3, "gates": [["h", [0]], ["cx", [0, 1]]], "then_names": [["q0", 2], ["q2", 0]], "then": [["cx", [2, 0]], ["x", [2]]]},
    # the newest name moves to an older qubit (what a re-assignment of the last variable does)
    {"nq": 3, "gates": [["h", [0]], ["cx", [0, 1]], ["ccx", [0, 1, 2]]], "names": [["b", 0], ["a", 1], ["c", 2]], "then_names": [["c", 0]], "then": [["x", [2]], ["cx", [2, 0]]]},
    {"nq": 4, "gates": [["cx", [0, 3]], ["ccx", [0, 1, 2]]], "names": [["a", 0], ["b", 1], ["c", 2], ["d", 3]], "then_names": [["d", 1]], "then": [["cx", [3, 1]], ["x", [3]]]},
    {"nq": 3, "gates": [["x", [1]], ["cx", [1, 2]]], "then_names": [["q2", 1]], "then": [["cx", [2, 1]], ["x", [2]]]},
    # fine and non-dyadic phases (the ladders of an 8..10 qubit Fourier transform)
    {"nq": 2, "gates": [["cp", [0, 1], 2 * math.pi / 2 ** 8], ["h", [0]], ["cp", [1, 0], 2 * math.pi / 2 ** 10]]},
    {"nq": 3, "gates": [["cp", [0, 2], 0.024544], ["cx", [0, 1]], ["cp", [1, 2], 1.0], ["cp", [0, 1], math.pi / 3]]},
    {"nq": 2, "gates": [["cp", [0, 1], math.pi / 128], ["cp", [0, 1], math.pi / 512], ["cp", [1, 0], 2.5]]},
    # circuits named like the mnemonics their bodies are written in
    {"nq": 2, "gates": [["x", [1]], ["cx", [0, 1]]], "cname": "cx"},
    {"nq": 2, "gates": [["h", [0]], ["cx", [0, 1]]], "cname": "cz"},
    {"nq": 1, "gates": [["x", [0]]], "cname": "x"},
    {"nq": 2, "gates": [["x", [0]], ["cx", [0, 1]]], "cname": "h"},
    {"nq": 3, "gates": [["ccx", [0, 1, 2]], ["cx", [0, 1]]], "cname": "swap"},
    {"nq": 3, "gates": [["ccx", [0, 1, 2]], ["x", [2]]], "cname": "ccx"},
    {"nq": 2, "gates": [["cp", [0, 1], 0.0], ["cx", [0, 1]], ["cp", [1, 0], 0.5]], "cname": "p"},
]


def export(qc, fw, mode):
    if fw.startswith("qasm"):
        from qlasskit.qcircuit.exporter_qasm import QasmExporter

        return QasmExporter(version=int(fw[-1])).export(qc, mode)
    return qc.export(mode, fw)


def judge(label, qc, fw, mode, st, solver, pre=None):
    """pre: (fingerprint before the export, exported object or exception) when the export was made
    earlier - every circuit of a batch is exported before any export is read, so that exports which
    share state with each other (or with later exports) are read in that state"""
    out = []
    nq = qc.num_qubits
    if pre is not None:
        fp0, obj = pre
        if isinstance(obj, Exception):
            return [("export-raises", "%s: %s" % (type(obj).__name__, str(obj)[:80]))]
    else:
        fp0 = [(g.name, list(w), p) for g, w, p in qc.gates]
        try:
            obj = export(qc, fw, mode)
        except Exception as e:
            return [("export-raises", "%s: %s" % (type(e).__name__, str(e)[:80]))]
    if [(g.name, list(w), p) for g, w, p in qc.gates] != fp0:
        out.append(("input-modified", "export changed the circuit"))
    try:
        if fw == "qiskit":
            n2, imp = read_qiskit(obj, mode)
            if n2 != nq:
                out.append(("qubit-count", "export has %d qubits, circuit %d" % (n2, nq)))
                return out
        elif fw == "cirq":
            imp = read_cirq(obj, mode, nq)
        elif fw == "sympy":
            imp = read_sympy(obj, mode, nq)
        else:
            imp, finds = read_qasm(obj, mode, int(fw[-1]), nq, qc.name)
            out += finds
            if imp is None:
                return out
            # phases as printed
            src_par = [p for g, w, p in qc.gates if p is not None and not g.is_nop()]
            imp_par = [p for g, w, p in imp if p is not None]
            if len(src_par) == len(imp_par):
                worst = max([abs(a - b) for a, b in zip(src_par, imp_par)] or [0.0])
                if worst > 0.005 + 1e-9:
                    out.append(("qasm-phase-wrong", "phase printed as %s for %r (off by %.4f)" % ([p for p in imp_par][:3], src_par[:3], worst)))
                if worst > 1e-9:
                    # the 2-decimal print format is judged once, by the dedicated 'phase-format'
                    # item; here everything else is checked with the exact phases
                    it = iter(src_par)
                    imp = [(g, w, (next(it) if p is not None else None)) for g, w, p in imp]
            else:
                out.append(("qasm-phase-wrong", "%d parameters printed for %d parameterised gates" % (len(imp_par), len(src_par))))
    except qamp.Unsupported as e:
        return out + [("SKIP", str(e))]
    except WidthMismatch as e:
        return out + [("qubit-count", str(e))]
    except Exception as e:  # the exported object's own (lazy) code raised while being read
        return out + [("export-raises", "%s: %s" % (type(e).__name__, str(e)[:80]))]
    if not fw.startswith("qasm"):
        # the angle carried by each exported parameterised gate is the circuit's (QASM text is judged
        # above, with its two-decimal format handled separately)
        src_par = [p for g, w, p in qc.gates if p is not None and not g.is_nop()]
        imp_par = [p for g, w, p in imp if p is not None]
        if len(src_par) == len(imp_par) and src_par:
            # as multisets: a reader may list commuting gates in another order (qiskit's gate
            # definition does); the order itself is the unitary query's business
            worst = max(abs(a - b) for a, b in zip(sorted(src_par), sorted(imp_par)))
            if worst > 1e-9:
                out.append(("phase-wrong", "%s export carries angles %s for %s (off by up to %.2e)" % (fw, [round(x, 6) for x in imp_par][:4], [round(x, 6) for x in src_par][:4], worst)))
                return out
    if any(i is None or i < 0 or i >= nq for g, w, p in imp for i in w):
        return out + [("qubit-range", "exported gates address qubits outside 0..%d" % (nq - 1))]
    xs = [z3.Bool("x%d" % i) for i in range(nq)]
    classical = all(boolq.is_classical(g) for g, w, p in list(qc.gates) + list(imp))
    try:
        if classical:
            q = z3.Or(*[z3.Xor(a, b) for a, b in zip(boolq.simcirc(qc.gates, xs), boolq.simcirc(imp, xs))]) if nq else z3.BoolVal(False)
        else:
            if nq > 7:
                return out + [("SKIP", "non-classical circuit on %d qubits" % nq)]
            q, info = qamp.equal_unitaries_query(qc.gates, imp, nq, xs)
    except (qamp.Unsupported, boolq.Unsupported) as e:
        return out + [("SKIP", str(e))]
    v = st.check(solver, q)
    if v == "sat" and classical:
        bits = [bool(z3.is_true(solver.model().eval(x, model_completion=True))) for x in xs]
        ra, rb = boolq.simcirc_concrete(qc.gates, bits), boolq.simcirc_concrete(imp, bits)
        if ra != rb:
            out.append(("not-equivalent", "exported %s/%s acts differently on basis state %s: source -> %s, export -> %s" % (fw, mode, bits, ra, rb)))
        else:
            out.append(("HARNESS", "classical counterexample did not reproduce"))
    elif v == "sat":
        import numpy as np

        ua = qamp.dense_unitary(qc.gates, nq)
        ub = qamp.dense_unitary(imp, nq)
        if not np.allclose(ua, ub, atol=1e-7):
            out.append(("not-equivalent", "exported %s/%s acts differently: source %s, export %s" % (fw, mode, [(g.name, w) for g, w, p in qc.gates if not g.is_nop()][:8], [(g.name, w) for g, w, p in imp][:8])))
        else:
            out.append(("HARNESS", "counterexample did not reproduce numerically"))
    elif v != "unsat":
        out.append(("HARNESS", "solver " + v))
    return out


def check_item(spec):
    st = Stats()
    res = {"status": "ok", "findings": [], "nontrivial": True}
    solver = z3.Solver()
    solver.set("rlimit", 100_000_000)
    fw, mode = spec["fw"], spec["mode"]
    bykind = {}
    n = skipped = 0
    if spec.get("ob") == "phase-format":
        phases = [math.pi / 4, math.pi / 8, -3 * math.pi / 4, 1.0, 0.123456]
        qc = circorp.build([["cp", [0, 1], ph] for ph in phases], 2, "qc")
        text = export(qc, fw, mode)
        got = [float(x) for x in re.findall(r"cp\(([^)]*)\)", text)]
        worst = max([abs(a - b) for a, b in zip(phases, got)] + ([1.0] if len(got) != len(phases) else []))
        if worst > 1e-9:
            res["findings"].append({"kind": "qasm-phase-precision", "what": "%s prints phase parameters with two decimals: %s for %s (off by up to %.4f)" % (fw, got, [round(p, 6) for p in phases], worst), "cex": {}, "replayed": True})
        res["circuits"] = 1
        return st.into(res)
    if "progs" in spec:
        from qlasskit import qlassf

        circs = []
        for src in spec["progs"]:
            try:
                if spec.get("opt") == "fast":
                    from qlasskit.boolopt import fastOptimizer

                    qf = qlassf(src, to_compile=True, bool_optimizer=fastOptimizer)
                else:
                    qf = qlassf(src, to_compile=True)
                if qf.circuit().num_qubits <= 40:
                    circs.append((src.split("\n")[1].strip(), qf.circuit()))
            except Exception:
                continue
    else:
        circs = [(circorp.show(c["gates"]) + (" names=%s" % c["names"] if c.get("names") else "") + (" then " + circorp.show(c["then"]) if c.get("then") else ""), build_hist(c, fw, mode)) for c in spec["circuits"]]
    pres = []
    for label, qc in circs:
        fp0 = [(g.name, list(w), p) for g, w, p in qc.gates]
        try:
            pres.append((fp0, export(qc, fw, mode)))
        except Exception as e:
            pres.append((fp0, e))
    for (label, qc), pre in zip(circs, pres):
        n += 1
        for kind, what in judge(label, qc, fw, mode, st, solver, pre):
            if kind == "SKIP":
                skipped += 1
                res.setdefault("skip_reasons", {})
                res["skip_reasons"][what[:60]] = res["skip_reasons"].get(what[:60], 0) + 1
                continue
            bykind.setdefault(kind, []).append("%s: %s" % (label, what))
    for kind, lst in bykind.items():
        if kind == "HARNESS":
            res.update(status="inconclusive", note=lst[0])
            continue
        res["findings"].append({"kind": kind, "what": "%s/%s: %d circuits, e.g. %s" % (fw, mode, len(lst), " || ".join(lst[:2])), "cex": {"circuits": lst[:5]}, "replayed": True})
    res["circuits"] = n
    res["skipped"] = skipped
    # sensitivity: an import with two wires exchanged must be told apart from the source
    a = circorp.build([["h", [0]], ["cx", [0, 1]], ["cp", [1, 2], math.pi / 4], ["ccx", [0, 1, 2]]], 3)
    xs = [z3.Bool("x%d" % i) for i in range(3)]
    wrong = [(g, list(reversed(w)) if len(w) == 3 else w, p) for g, w, p in a.gates]
    q, _ = qamp.equal_unitaries_query(a.gates, wrong, 3, xs)
    res["negctl"] = st.check(solver, q) == "sat"
    return st.into(res)


def coverage(specs, results):
    import collections

    fam = collections.Counter()
    for sp, r in zip(specs, results):
        fam["%s/%s" % (sp["fw"], sp["mode"])] += r.get("circuits", 0)
    total = sum(r.get("circuits", 0) for r in results)
    return {
        "programs": total,
        "disagreements_checked": sum(1 for r in results if r["findings"]),
        "samples": [{"exporter": "qasm3/circuit", "circuit": "x0 h1 cx01 ccx012 cp(pi/4)01", "verdict": "parsed text re-imported with formal k = qubit k implements the same unitary; formals == qubits"}],
        "exports_by_framework_mode": dict(fam),
        "negative_controls": {"run": sum(1 for r in results if "negctl" in r), "detected": sum(1 for r in results if r.get("negctl"))},
        "skipped_outside_reader": sum(r.get("skipped", 0) for r in results),
        "skip_reasons": dict(sum((collections.Counter(r.get("skip_reasons", {})) for r in results), collections.Counter())),
        "distinct_nontrivial": total,
        "evaluations": total,
        "rule": "every (circuit, exporter, mode) is exported by the real exporter, re-imported by an independent reader into absolute qubit indices, and compared with the source on a symbolic basis state with exact amplitudes",
    }


if __name__ == "__main__":
    qamp.selftest()
    sys.exit(main_for(sys.modules[__name__]))
