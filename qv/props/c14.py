"""C14 — circuit composition operators compose."""
import copy
import itertools
import random
import sys

import z3

from .. import boolq, circorp, qamp, symx
from ..common import Stats, item_id, main_for, slice_quick

PID = "C14"
LEVEL = "other"
ITEM_CAP = {"quick": 180, "thorough": 900}
FUNCS = ["qlasskit.qcircuit.qcircuit.QCircuit.{append_circuit,__iadd__,__add__,repeat,copy,append,qft,iqft}", "qlasskit.qcircuit.qcircuitenhanced.QCircuitEnhanced.remove_identities"]
BOUNDS = {
    "quick": "append_circuit: 60 fixed-seed classical circuit pairs (B on 2-3 qubits appended onto A on 3-5 qubits) with the REMAP LIST SYMBOLIC (distinct in-range z3 Ints) and the basis state symbolic; 40 non-classical pairs with every injective remap enumerated (exact amplitudes); +/+=: 80 pairs; repeat: symbolic n in [0,4] on 40 circuits; copy: 40 circuits; remove_identities: all sequences of length <= 4 over 11 gate objects (repeated objects, distinct objects of one gate, permuted wires, barriers), all sequences of length <= 3 and all nested palindromes g h h g and g h k k h g over 14 phase/non-self-inverse gate objects (exact amplitudes), palindromes g h k k h g over the classical pool; qft/iqft: every injective qubit list of length <= 3 on 4 qubits",
    "thorough": "3x the pair counts, remove_identities sequences of length <= 5 (phase pool <= 4, palindromes of half-length 3), qft/iqft lists of length <= 4 on 5 qubits",
}
OUTSIDE = "circuits enumerated; symbolic remaps only for classical circuits; qft/iqft checked as inverse pair (not against the DFT matrix); n > 4 for repeat"
ASSUMPTIONS = ["gate tables of engines A and D", "frame conditions (operands unchanged, result independent of operands) are checked by fingerprints and by mutating the result - concrete checks, not solver queries"]


def fp(qc):
    return (qc.num_qubits, [(type(g).__name__, g.name, list(w), p) for g, w, p in qc.gates], dict(qc.qubit_map), [(type(g).__name__, list(w), p) for g, w, p in qc.gates_computed])


def sym_read(st, w):
    if isinstance(w, int):
        return st[w]
    r = st[-1]
    for i in reversed(range(len(st) - 1)):
        r = z3.If(w == i, st[i], r)
    return r


def sym_write(st, w, val):
    if isinstance(w, int):
        st = list(st)
        st[w] = val
        return st
    return [z3.If(w == i, val, st[i]) for i in range(len(st))]


def simcirc_symwires(gatelist, state, wire_of):
    """classical interpreter where a wire may be a z3 Int term (wire_of maps a gate-list wire entry
    to int or z3 Int)"""
    from qlasskit.qcircuit import gates

    st = list(state)
    for g, w, p in gatelist:
        if isinstance(g, gates.NopGate) or isinstance(g, gates.I):
            continue
        ws = [wire_of(x) for x in w]
        if isinstance(g, gates.Swap):
            a, b = sym_read(st, ws[0]), sym_read(st, ws[1])
            st = sym_write(st, ws[0], b)
            st = sym_write(st, ws[1], a)
        elif isinstance(g, gates.QControlledGate) and isinstance(g.gate, gates.X):
            cs = [sym_read(st, x) for x in ws[:-1]]
            t = sym_read(st, ws[-1])
            st = sym_write(st, ws[-1], z3.Xor(t, z3.And(*cs)))
        elif isinstance(g, gates.X):
            st = sym_write(st, ws[0], z3.Not(sym_read(st, ws[0])))
        else:
            raise boolq.Unsupported("non-classical gate %r" % (g,))
    return st


def wire_term(x):
    if isinstance(x, symx.SxInt):
        return x.t
    return x


CLASSICAL = ["x", "x", "cx", "cx", "cx", "ccx", "swap", "barrier"]
MIXED = ["x", "cx", "ccx", "h", "z", "s", "t", "cz", "cp", "swap", "barrier", "y"]


def make_items(tier, seed):
    k = 3 if tier == "thorough" else 1
    rnd = random.Random(2718)
    items = []
    for i in range(60 * k):
        nqa = rnd.choice([3, 4, 5])
        nqb = rnd.choice([2, 3]) if nqa > 3 else rnd.choice([2, 3])
        items.append({"ob": "append-sym", "nqA": nqa, "nqB": nqb, "A": circorp.random_circuit(rnd, nqa, rnd.randint(0, 6), CLASSICAL), "B": circorp.random_circuit(rnd, nqb, rnd.randint(1, 6), CLASSICAL)})
    for i in range(40 * k):
        nqa = rnd.choice([3, 4])
        nqb = rnd.choice([2, 3])
        items.append({"ob": "append-enum", "nqA": nqa, "nqB": nqb, "A": circorp.random_circuit(rnd, nqa, rnd.randint(0, 5), MIXED), "B": circorp.random_circuit(rnd, nqb, rnd.randint(1, 5), MIXED)})
    for i in range(80 * k):
        nq = rnd.choice([2, 3, 4])
        nqb = rnd.choice([x for x in (2, 3, 4) if x <= nq])
        kinds = CLASSICAL if i % 2 else MIXED
        items.append({"ob": "add" if i % 4 < 2 else "iadd", "nqA": nq, "nqB": nqb, "A": circorp.random_circuit(rnd, nq, rnd.randint(0, 6), kinds), "B": circorp.random_circuit(rnd, nqb, rnd.randint(0, 6), kinds)})
    rw = random.Random(515)
    for i in range(12 * k):  # narrower left operand
        nqa = rw.choice([1, 2, 3])
        nqb = rw.choice([x for x in (2, 3, 4) if x > nqa])
        kinds = CLASSICAL if i % 2 else MIXED
        items.append({"ob": "add" if i % 3 else "iadd", "nqA": nqa, "nqB": nqb, "A": circorp.random_circuit(rw, nqa, rw.randint(1, 4), [x for x in kinds if nqa > 1 or x in ("x", "h", "z", "s", "t", "y")]), "B": circorp.random_circuit(rw, nqb, rw.randint(1, 5), kinds)})
    for i in range(40 * k):
        nq = rnd.choice([2, 3, 4])
        items.append({"ob": "repeat", "nqA": nq, "A": circorp.random_circuit(rnd, nq, rnd.randint(1, 5), CLASSICAL if i % 2 else MIXED)})
    for i in range(40 * k):
        nq = rnd.choice([2, 3, 4])
        items.append({"ob": "copy", "nqA": nq, "A": circorp.random_circuit(rnd, nq, rnd.randint(0, 6), MIXED), "vanilla": bool(i % 2)})
    L = 5 if tier == "thorough" else 4
    for pre in range(11):
        items.append({"ob": "remove_identities", "first": pre, "len": L})
    # gates that are not their own inverse (S, T, P, CP) and non-classical self-inverse ones (H, Z, CZ),
    # the same applied-gate object repeated: judged on exact amplitudes
    for pre in range(14):
        items.append({"ob": "remove_identities", "pool": "phase", "first": pre, "len": 4 if tier == "thorough" else 3})
    items.append({"ob": "remove_identities", "pool": "phase", "first": 1, "nested": 3})
    items.append({"ob": "remove_identities", "first": 1, "nested": 3})
    nqf, lf = (5, 4) if tier == "thorough" else (4, 3)
    for l in range(1, lf + 1):
        for wl in itertools.permutations(range(nqf), l):
            items.append({"ob": "qft", "nq": nqf, "wl": list(wl)})
    return items


class MalformedResult(Exception):
    pass


def eq_query(result_gates, ref_gates, nq, xs):
    """equal_unitaries_query, telling apart 'the reader does not model this gate' (Unsupported) from
    'the composed circuit holds a gate that cannot be applied' (e.g. a phase gate that lost its
    parameter): the latter is a finding, not a harness error"""
    try:
        return qamp.equal_unitaries_query(result_gates, ref_gates, nq, xs)
    except qamp.Unsupported:
        raise
    except Exception as e:
        try:
            qamp.equal_unitaries_query(ref_gates, ref_gates, nq, xs)
        except Exception:
            raise e
        bad = [(type(g).__name__, list(w), p) for g, w, p in result_gates if p is None and any(p2 is not None for g2, w2, p2 in ref_gates if type(g2) is type(g))]
        raise MalformedResult("the result cannot be applied (%s: %s); gates without their parameter: %s" % (type(e).__name__, str(e)[:60], bad[:3]))



def check_item(spec):
    try:
        return _check_item(spec)
    except MalformedResult as e:
        return {"status": "ok", "findings": [{"kind": "malformed-result", "what": "%s: %s" % (spec.get("ob"), e), "cex": {}, "replayed": True}], "nontrivial": True}


def _check_item(spec):
    from qlasskit import QCircuit

    st = Stats()
    res = {"status": "ok", "findings": [], "nontrivial": True}
    s = z3.Solver()
    s.set("rlimit", 100_000_000)
    ob = spec["ob"]

    def finding(kind, what):
        res["findings"].append({"kind": kind, "what": what, "cex": {}, "replayed": True})

    if ob in ("append-sym", "append-enum", "add", "iadd"):
        A = circorp.build(spec["A"], spec["nqA"], "A")
        B = circorp.build(spec["B"], spec["nqB"], "B")
        fa, fb = fp(A), fp(B)
        nq = max(spec["nqA"], spec["nqB"]) if ob in ("add", "iadd") else spec["nqA"]
        xs = [z3.Bool("x%d" % i) for i in range(nq)]
        if ob == "append-sym":
            qs = [z3.Int("r%d" % i) for i in range(spec["nqB"])]
            dom = [z3.And(q >= 0, q < nq) for q in qs] + [z3.Distinct(*qs)] if len(qs) > 1 else [z3.And(qs[0] >= 0, qs[0] < nq)]
            def run_append():
                R_ = copy.deepcopy(A)
                R_.append_circuit(B, [symx.SxInt(q) for q in qs])
                return R_

            paths, aborted = symx.explore(run_append, base=dom, stats=st, maxpaths=200)
            if aborted or not paths:
                res.update(status="inconclusive", note="append: %d paths aborted" % aborted)
                return st.into(res)
            if fp(B) != fb:
                finding("operand-modified", "append_circuit modified the appended circuit")
            R = None
            v = "unsat"
            mid = boolq.simcirc(A.gates, xs)
            rhs = simcirc_symwires(B.gates, mid, lambda w: qs[w])
            for pc, extra, r in paths:
                if r[0] == "exc":
                    s.push()
                    s.add(*dom, *pc, *extra)
                    if st.check(s) == "sat":
                        m = s.model()
                        remap = [m.eval(q, model_completion=True).as_long() for q in qs]
                        try:
                            copy.deepcopy(A).append_circuit(B, remap)
                            res.update(status="inconclusive", note="symbolic run raised %s but the concrete run on remap %s does not" % (type(r[1]).__name__, remap))
                        except Exception as e:
                            finding("append-raises", "remap %s: %s: %s" % (remap, type(e).__name__, str(e)[:100]))
                    s.pop()
                    continue
                R = r[1]
                lhs = simcirc_symwires(R.gates, xs, wire_term)
                s.push()
                s.add(*pc, *extra)
                v = st.check(s, z3.And(*dom), z3.Or(*[z3.Xor(a, b) for a, b in zip(lhs, rhs)]))
                if v != "unsat":
                    break
                s.pop()
            if R is None:
                return st.into(res)
            if v == "sat":
                m = s.model()
                remap = [m.eval(q, model_completion=True).as_long() for q in qs]
                bits = [bool(z3.is_true(m.eval(x, model_completion=True))) for x in xs]
                R2 = copy.deepcopy(A)
                R2.append_circuit(B, remap)
                got = boolq.simcirc_concrete(R2.gates, bits)
                want = boolq.simcirc_concrete([(g, [remap[i] for i in w], p) for g, w, p in B.gates], boolq.simcirc_concrete(A.gates, bits))
                if got != want:
                    finding("append-wrong", "A=%s B=%s remap %s basis %s: result %s, B-on-remap after A gives %s" % (circorp.show(spec["A"]), circorp.show(spec["B"]), remap, bits, got, want))
                else:
                    res.update(status="inconclusive", note="append counterexample did not reproduce")
            elif v != "unsat":
                res.update(status="inconclusive", note="solver " + v)
            # independence: mutating the result must not show in B
            if R.gates:
                try:
                    R.gates[-1][1].append(99)
                except Exception:
                    pass
                if fp(B) != fb:
                    finding("aliasing", "wire list of the result is shared with the appended circuit")
            return st.into(res)
        if ob == "append-enum":
            bad = None
            for remap in itertools.permutations(range(nq), spec["nqB"]):
                R = copy.deepcopy(A)
                R.append_circuit(B, list(remap))
                try:
                    ref_gates = list(A.gates) + [(g, [remap[i] for i in w], p) for g, w, p in B.gates]
                    q, info = eq_query(R.gates, ref_gates, nq, xs)
                except qamp.Unsupported as e:
                    res.update(status="skip", note=str(e))
                    return st.into(res)
                v = st.check(s, q)
                if v == "sat":
                    bad = remap
                    break
            if fp(A) != fa or fp(B) != fb:
                finding("operand-modified", "append_circuit on a copy modified an operand")
            if bad is not None:
                finding("append-wrong", "A=%s B=%s remap %s: unitary differs from B-on-remap after A" % (circorp.show(spec["A"]), circorp.show(spec["B"]), list(bad)))
            return st.into(res)
        # add / iadd
        try:
            if ob == "add":
                R = A + B
            else:
                R = copy.deepcopy(A)
                R += B
        except Exception as e:
            if spec["nqB"] > spec["nqA"]:
                # a wider right operand is refused by the pinned tree; if a result is produced
                # instead, it has to be the sequential composition on the wider register (below)
                res["note"] = "wider right operand refused"
                return st.into(res)
            finding("add-raises", "%s: %s" % (type(e).__name__, str(e)[:100]))
            return st.into(res)
        if fp(A) != fa or fp(B) != fb:
            finding("operand-modified", "%s modified an operand" % ob)
        ref_gates = list(A.gates) + list(B.gates)
        try:
            if all(boolq.is_classical(g) for g, w, p in ref_gates + list(R.gates)):
                l = boolq.simcirc(R.gates, xs)
                r = boolq.simcirc(ref_gates, xs)
                q = z3.Or(*[z3.Xor(a, b) for a, b in zip(l, r)])
            else:
                q, info = eq_query(R.gates, ref_gates, nq, xs)
        except (qamp.Unsupported, boolq.Unsupported) as e:
            res.update(status="skip", note=str(e))
            return st.into(res)
        if R.num_qubits != nq:
            finding("add-wrong", "result has %d qubits" % R.num_qubits)
        v = st.check(s, q)
        if v == "sat":
            finding("add-wrong", "A=%s B=%s: %s is not the sequential composition (result gates %s)" % (circorp.show(spec["A"]), circorp.show(spec["B"]), ob, [(g.name, w) for g, w, p in R.gates]))
        elif v != "unsat":
            res.update(status="inconclusive", note="solver " + v)
        # independence
        if ob == "iadd":
            for g_, w_, p_ in R.gates:
                if w_:
                    w_[0] = (w_[0] + 1) % nq
            if fp(B) != fb:
                finding("aliasing", "mutating the result of A += B changed B")
        if ob == "add":
            R.x(0)
            R.qubit_map["zz"] = 0
            for g_, w_, p_ in R.gates:
                if w_:
                    w_[0] = (w_[0] + 1) % nq
            if fp(A) != fa or fp(B) != fb:
                finding("aliasing", "mutating A + B (relabelling the qubits of its gates) changed an operand")
        return st.into(res)

    if ob == "repeat":
        A = circorp.build(spec["A"], spec["nqA"], "A")
        fa = fp(A)
        nq = spec["nqA"]
        xs = [z3.Bool("x%d" % i) for i in range(nq)]
        n = z3.Int("n")
        base = [n >= 0, n <= 4]
        classical = all(boolq.is_classical(g) for g, w, p in A.gates)

        def run():
            return A.repeat(symx.SxInt(n))

        paths, aborted = symx.explore(run, base=base, stats=st, maxpaths=50)
        if aborted or not paths:
            res.update(status="inconclusive", note="repeat: %d aborted" % aborted)
            return st.into(res)
        res["paths"] = len(paths)
        for pc, extra, r in paths:
            s.push()
            s.add(*base, *pc, *extra)
            if st.check(s) != "sat":
                s.pop()
                continue
            nv = s.model().eval(n, model_completion=True).as_long()
            if r[0] == "exc":
                finding("repeat-raises", "repeat(%d) raises %s" % (nv, type(r[1]).__name__))
                s.pop()
                continue
            R = r[1]
            # on this path n is fixed by the path condition; the basis state stays symbolic
            ref_gates = list(A.gates) * nv
            try:
                if classical:
                    q = z3.Or(*[z3.Xor(a, b) for a, b in zip(boolq.simcirc(R.gates, xs), boolq.simcirc(ref_gates, xs))])
                else:
                    q, info = eq_query(R.gates, ref_gates, nq, xs)
            except (qamp.Unsupported, boolq.Unsupported) as e:
                s.pop()
                res.update(status="skip", note=str(e))
                return st.into(res)
            v = st.check(s, q)
            if v == "sat":
                finding("repeat-wrong" if nv else "repeat-zero", "A=%s: repeat(%d) has %d gates and is not the %d-fold composition" % (circorp.show(spec["A"]), nv, len(R.gates), nv))
            elif v != "unsat":
                res.update(status="inconclusive", note="solver " + v)
            s.pop()
            if R is A or (R.gates and any(R.gates[i] is A.gates[j] for i in range(len(R.gates)) for j in range(len(A.gates)))):
                finding("aliasing", "repeat(%d) shares gate tuples with its operand" % nv)
        if fp(A) != fa:
            finding("operand-modified", "repeat modified its operand")
        return st.into(res)

    if ob == "copy":
        A = circorp.build(spec["A"], spec["nqA"], "A")
        A.qubit_map["extra"] = 0
        fa = fp(A)
        nq = spec["nqA"]
        xs = [z3.Bool("x%d" % i) for i in range(nq)]
        C = A.copy(vanilla=spec["vanilla"])
        if fp(A) != fa:
            finding("operand-modified", "copy modified its source")
        try:
            q, info = eq_query(C.gates, A.gates, nq, xs)
        except qamp.Unsupported as e:
            res.update(status="skip", note=str(e))
            return st.into(res)
        if C.num_qubits != nq or st.check(s, q) == "sat":
            finding("copy-wrong", "copy(vanilla=%s) of %s is not an equal circuit" % (spec["vanilla"], circorp.show(spec["A"])))
        if not spec["vanilla"] and C.qubit_map != A.qubit_map:
            finding("copy-wrong", "copy lost the qubit map")
        C.x(0)
        C.qubit_map["zz"] = 1
        if C.gates and C.gates[0][1]:
            C.gates[0][1][0] = (C.gates[0][1][0] + 1) % nq
        if fp(A) != fa:
            finding("aliasing", "mutating the copy changed the source")
        return st.into(res)

    if ob == "remove_identities":
        from qlasskit.qcircuit import QCircuitEnhanced, gates

        nq = 3
        xs = [z3.Bool("x%d" % i) for i in range(nq)]
        # repeated objects, distinct objects of the same gate, the same gate on permuted wires
        pool = [(gates.X(), [0]), (gates.X(), [1]), (gates.CX(), [0, 1]), (gates.CX(), [1, 2]), (gates.CCX(), [0, 1, 2]), (gates.Barrier(), []), (gates.X(), [0]), (gates.CX(), [1, 0]), (gates.CCX(), [0, 2, 1]), (gates.CCX(), [1, 0, 2]), (gates.CX(), [0, 1])]
        applied = [(g, w, None) for g, w in pool]  # the very same tuple objects are re-used, as the compiler's uncompute does
        phase = spec.get("pool") == "phase"
        if phase:
            import math

            applied = [(gates.S(), [0], None), (gates.T(), [1], None), (gates.P(), [0], math.pi / 4), (gates.CP(), [0, 1], math.pi / 2), (gates.H(), [0], None), (gates.Z(), [1], None), (gates.CZ(), [0, 1], None), (gates.Barrier(), [], None), (gates.X(), [0], None), (gates.CX(), [0, 1], None),
                       (gates.CX(), [0, 2], None), (gates.CZ(), [1, 2], None), (gates.CCX(), [0, 1, 2], None), (gates.CP(), [1, 2], math.pi / 4)]
            pool = [(g, w) for g, w, _ in applied]
        n = 0
        bad = []
        def sequences():
            if spec.get("nested"):
                # g h h g, g h k k h g: an inner pair cancels and exposes an outer pair (a circuit followed by its own
                # gates in reverse, as an uncomputation is); the outer gates need not be their own inverse
                for depth in range(2, spec["nested"] + 1):
                    for half in itertools.product(range(len(pool)), repeat=depth):
                        yield tuple(half) + tuple(reversed(half))
                return
            for L in range(1, spec["len"] + 1):
                for seq in itertools.product(range(len(pool)), repeat=L - 1):
                    yield (spec["first"],) + seq

        for seq in sequences():
            if True:
                qc = QCircuitEnhanced(nq)
                for i in seq:
                    qc.gates.append(applied[i])
                before = list(qc.gates)
                n += 1
                try:
                    qc.remove_identities()
                except Exception as e:
                    bad.append(("remove-identities-raises", "%s: %s" % ([pool[i][0].name + str(pool[i][1]) for i in seq], type(e).__name__)))
                    continue
                if phase:
                    if [id(t) for t in qc.gates] == [id(t) for t in before]:
                        continue  # nothing removed
                    try:
                        q, info = qamp.equal_unitaries_query(qc.gates, before, nq, xs)
                    except qamp.Unsupported as e:
                        res.update(status="inconclusive", note=str(e))
                        return st.into(res)
                    differs = st.check(s, q) == "sat"
                else:
                    l = boolq.simcirc(qc.gates, xs)
                    r = boolq.simcirc(before, xs)
                    differs = st.check(s, z3.Or(*[z3.Xor(a, b) for a, b in zip(l, r)])) == "sat"
                if differs:
                    bad.append(("remove-identities-wrong", "%s -> %s changes the action" % ([pool[i][0].name + str(pool[i][1]) for i in seq], [(g.name, w) for g, w, p in qc.gates])))
        # circuits built through the public API only: a circuit appended onto itself shares its applied gates
        if spec["first"] == 0:
            import math

            for build in ("s", "t", "cp", "x"):
                qc = QCircuitEnhanced(2)
                {"s": lambda: qc.s(0), "t": lambda: qc.t(1), "cp": lambda: qc.cp(math.pi / 4, 0, 1), "x": lambda: qc.x(0)}[build]()
                qc += qc
                before = list(qc.gates)
                n += 1
                try:
                    qc.remove_identities()
                    q, info = qamp.equal_unitaries_query(qc.gates, before, 2, [z3.Bool("x0"), z3.Bool("x1")])
                    if st.check(s, q) == "sat":
                        bad.append(("remove-identities-wrong", "%s gate, circuit += itself, remove_identities: %s -> %s changes the action" % (build, [(g.name, w) for g, w, p in before], [(g.name, w) for g, w, p in qc.gates])))
                except qamp.Unsupported as e:
                    res.update(status="inconclusive", note=str(e))
                    return st.into(res)
                except Exception as e:
                    bad.append(("remove-identities-raises", "%s += itself: %s" % (build, type(e).__name__)))
        res["circuits"] = n
        kinds = {}
        for k, w in bad:
            kinds.setdefault(k, []).append(w)
        for k, lst in kinds.items():
            finding(k, "%d sequences, e.g. %s" % (len(lst), " || ".join(lst[:2])))
        return st.into(res)

    if ob == "qft":
        nq = spec["nq"]
        wl = spec["wl"]
        xs = [z3.Bool("x%d" % i) for i in range(nq)]
        qc = QCircuit(nq)
        qc.qft(list(wl))
        nf = len(qc.gates)
        qc.iqft(list(wl))
        try:
            q, info = qamp.equal_unitaries_query(qc.gates, [], nq, xs)
        except qamp.Unsupported as e:
            res.update(status="inconclusive", note=str(e))
            return st.into(res)
        v = st.check(s, q)
        if v == "sat":
            import numpy as np

            U = qamp.dense_unitary(qc.gates, nq)
            if not np.allclose(U, np.eye(2 ** nq), atol=1e-9):
                finding("qft-not-inverse", "iqft(%s) after qft(%s) on %d qubits is not the identity" % (wl, wl, nq))
            else:
                res.update(status="inconclusive", note="qft counterexample did not reproduce numerically")
        # sensitivity: qft alone must not be the identity
        if len(wl) >= 1 and int(item_id(spec), 16) % 4 == 0:
            q2, _ = qamp.equal_unitaries_query(qc.gates[:nf], [], nq, xs)
            res["negctl"] = st.check(s, q2) == "sat"
        return st.into(res)
    raise ValueError(ob)


def coverage(specs, results):
    import collections

    c = collections.Counter(sp["ob"] for sp, r in zip(specs, results) if r["status"] == "ok")
    sk = collections.Counter(sp["ob"] for sp, r in zip(specs, results) if r["status"] == "skip")
    neg = [r["negctl"] for r in results if "negctl" in r]
    return {
        "explanation": "append_circuit is run (real code) with a remap list of symbolic integers and the composed circuit is compared, on a symbolic basis state, with 'B on q after A' computed by the interpreter's own wire map - one z3 query covers every injective remap and every basis state; repeat(n) is run with symbolic n (forks per value); + / += / copy / qft-iqft are compared exactly (Boolean or cyclotomic amplitudes) on a symbolic basis state; remove_identities on all short sequences of re-used gate objects.",
        "evaluations": len(results),
        "distinct_nontrivial": sum(1 for r in results if r["status"] == "ok"),
        "obligations_by_kind": dict(c),
        "skipped_outside_engine": dict(sk),
        "remove_identities_sequences": sum(r.get("circuits", 0) for r in results),
        "negative_controls": {"run": len(neg), "detected": sum(1 for x in neg if x)},
        "samples": [{"obligation": sp["ob"], "A": circorp.show(sp.get("A", [])), "B": circorp.show(sp.get("B", [])) if "B" in sp else None, "verdict": "holds" if not r["findings"] else r["findings"][0]["what"][:150]} for sp, r in list(zip(specs, results))[:: max(1, len(specs) // 5)]][:6],
        "rule": "one item = one obligation instance",
    }


if __name__ == "__main__":
    qamp.selftest()
    boolq.selftest()
    sys.exit(main_for(sys.modules[__name__]))
