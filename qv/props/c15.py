"""C15 — Grover search amplifies exactly the solutions of the predicate."""
import itertools
import sys

import z3

from .. import algo, boolq, circ, qamp, refsem, symx
from ..common import Stats, item_id, main_for

PID = "C15"
LEVEL = "other"
ITEM_CAP = {"quick": 400, "thorough": 3000}
FUNCS = ["qlasskit.algorithms.grover.Grover.{__init__,output_qubits,decode_output}", "qlasskit.algorithms.qalgorithm.oraclize", "qlasskit.qcircuit.qcircuit.QCircuit.{__add__,repeat,mctrl}", "qlasskit.types.interpret_as_qtype"]
BOUNDS = {
    "quick": "symbolic oracle (whole truth table = solver variables, |solutions| = M): n=2 M=1, n=3 M in {1,2}; exact integer simulation of one table per (n, M) for n=2..6, M=1..N/4 (default iteration count); 24 compiled predicates in 2-5 search bits (3 syntactic variants per solution set) for the oracle contract and pairwise equivalence; Grover(g, y) targets incl. falsy ones; repeated construction from one QlassF; decode_output for bool/Qint/Tuple/Qlist arguments (tuples nested up to three deep)",
    "thorough": "adds the symbolic oracle for n=4, M in {1,2} (bit-vector amplitudes of width hc/2+3)",
}
OUTSIDE = "symbolic oracle for n=4 with M in {3,4} and n >= 5 (solver budget): there the claim rests on the single-table exact simulations and the contract half; predicates are enumerated"
ASSUMPTIONS = ["gate table of engine D (H, X, Z, C^nZ, C^nX); amplitudes as bit-vectors of width derived from the number of H gates, with a norm query as overflow canary", "oracle contract => the compiled predicate acts as the abstract oracle on scratch = 0"]


def preds():
    Q2, Q3, Q4 = "Qint[2]", "Qint[3]", "Qint[4]"
    P = []

    def fam(arg, variants):
        for v in variants:
            P.append({"arg": arg, "src": "def pred(x: %s) -> bool:\n    return %s\n" % (arg, v), "group": variants[0]})

    fam(Q2, ["x == 3", "x[0] and x[1]", "not (x < 3)"])
    fam(Q3, ["x == 5", "x[0] and not x[1] and x[2]", "(x ^ 5) == 0"])
    fam(Q3, ["x == 1 or x == 6", "(x == 1) != (x == 6)", "(x + 1 == 2) or (x + 2 == 0)"])
    fam(Q4, ["x == 9", "x[0] and x[3] and not x[1] and not x[2]", "(x & 9) == 9 and (x | 9) == 9"])
    fam(Q4, ["x > 12", "x == 13 or x == 14 or x == 15", "x[3] and x[2] and (x[1] or x[0])"])
    fam("Tuple[Qint[2], Qint[2]]", ["(x[0] ^ x[1]) == 3", "(x[0] == 0 and x[1] == 3) or (x[0] == 3 and x[1] == 0) or (x[0] == 1 and x[1] == 2) or (x[0] == 2 and x[1] == 1)", "(x[1] ^ x[0]) == 3"])
    fam("Tuple[bool, bool, bool]", ["x[0] and x[1] and not x[2]", "not (not x[0] or not x[1] or x[2])", "(x[0] and x[1]) and (x[1] != x[2])"])
    fam("Qlist[bool, 4]", ["x[0] and x[1] and x[2] and x[3]", "all(x)", "not (not x[0] or not x[1] or not x[2] or not x[3])"])
    fam("Qint[5]", ["x == 19", "x[0] and x[1] and not x[2] and not x[3] and x[4]", "(x ^ 19) == 0"])
    return P


def make_items(tier, seed):
    items = []
    sym = [(2, 1), (3, 1), (3, 2)] + ([(4, 1), (4, 2)] if tier == "thorough" else [])
    for n, M in sym:
        for sb, sa in ((0, 0), (1, 1)) if n < 4 else ((0, 0),):
            items.append({"ob": "symbolic", "n": n, "M": M, "sb": sb, "sa": sa})
    for n in range(2, 7):
        for M in range(1, max(1, (1 << n) // 4) + 1):
            if n >= 5 and M not in (1, 2, 3, (1 << n) // 4):
                continue
            items.append({"ob": "table", "n": n, "M": M})
    for p in preds():
        items.append(dict(p, ob="contract"))
    groups = {}
    for p in preds():
        groups.setdefault((p["arg"], p["group"]), []).append(p["src"])
    for (arg, g), srcs in groups.items():
        items.append({"ob": "variants", "arg": arg, "srcs": srcs})
    targets = [
        ("def g(x: Qint[3]) -> bool:\n    return x != 5\n", False),
        ("def g(x: Qint[3]) -> bool:\n    return x == 5\n", True),
        ("def g(x: Qint[2]) -> Qint[2]:\n    return x + 1\n", 0),
        ("def g(x: Qint[2]) -> Qint[2]:\n    return x + 1\n", 2),
        ("def g(x: Qint[3]) -> Qint[3]:\n    return x ^ 5\n", 0),
        ("def g(x: Qint[3]) -> Qint[3]:\n    return x ^ 5\n", 6),
        ("def g(x: Tuple[bool, bool, bool]) -> bool:\n    return x[0] or x[1] or x[2]\n", False),
        # user functions whose names may clash with the names the wrapper generates
        ("def oracle(x: Qint[3]) -> Qint[3]:\n    return x ^ 5\n", 6),
        ("def oracle(x: Qint[3]) -> bool:\n    return x == 5\n", True),
        ("def oracle_outer(x: Qint[2]) -> Qint[2]:\n    return x + 1\n", 2),
        ("def v(x: Qint[2]) -> Qint[2]:\n    return x + 1\n", 2),
        ("def grover(v: Qint[2]) -> Qint[2]:\n    return v + 1\n", 0),
        # ... or are the names of builtins the translator knows
        ("def sum(a: Tuple[Qint[2], Qint[2]]) -> Qint[2]:\n    return a[0] ^ a[1] ^ 1\n", 3),
        ("def max(a: Tuple[Qint[2], Qint[2]]) -> Qint[2]:\n    return a[0] & a[1]\n", 3),

    ]
    for src, y in targets:
        items.append({"ob": "target", "src": src, "y": y})
    items.append({"ob": "twice", "src": "def pred(x: Qint[3]) -> bool:\n    return x == 5\n"})
    items.append({"ob": "twice", "src": "def pred(x: Qint[2]) -> bool:\n    return x == 2\n"})
    # the real wrapper around real compiled predicates, exact amplitudes: predicates that ignore part of
    # the search register, and the same solution set spelled differently
    e2e = [
        ("Qint[4]", "(x >> 1) == 5"), ("Qint[4]", "x == 10 or x == 11"), ("Qint[4]", "x[1] and x[2] and x[3]"), ("Qint[3]", "x[2] and x[1]"),
        ("Tuple[Qint[2], bool, Qint[2]]", "x[0] == 2 and x[2] == 1"), ("Tuple[bool, bool, bool, bool]", "x[0] and x[3] and not x[1]"),
        ("Qint[4]", "x == 9"), ("Tuple[Qint[2], Qint[2]]", "x[0] + x[1] == 6"), ("Qlist[bool, 4]", "x[0] and all(x)"), ("Qint[5]", "(x >> 2) == 5"),
    ]
    for arg, src in e2e:
        for opt in ("default", "fast"):
            items.append({"ob": "endtoend", "src": "def pred(x: %s) -> bool:\n    return %s\n" % (arg, src), "opt": opt})
    for arg, src in [("Qmatrix[bool, 2, 2]", "x[0][0] and x[1][1] and not x[0][1] and not x[1][0]"), ("Tuple[Qint[2], Tuple[bool, Qint[2]]]", "x[0] == 1 and x[1][0] and x[1][1] == 2"), ("Qlist[Tuple[bool, Qint[2]], 2]", "x[0][0] and x[1][1] == 3 and not x[1][0] and x[0][1] == 0")]:
        items.append({"ob": "decode", "src": "def pred(x: %s) -> bool:\n    return %s\n" % (arg, src)})
    for arg, src in [("Qint[3]", "x == 5"), ("Tuple[Qint[2], bool]", "x[0] == 2 and x[1]"), ("Qlist[bool, 3]", "all(x)"), ("bool", "x"), ("Tuple[Tuple[bool, Qint[2]], bool]", "x[0][0] and x[1] and x[0][1] == 1"), ("Qchar", "x == 'a'"),
                     # tuples nested three deep (sizes are computed recursively by interpret_as_qtype)
                     ("Tuple[Tuple[Tuple[bool, bool], bool], Qint[2]]", "x[0][0][1] and x[0][1] and x[1] == 1 and not x[0][0][0]"),
                     ("Tuple[bool, Tuple[Qint[2], Tuple[bool, bool]]]", "x[0] and x[1][0] == 2 and x[1][1][0] and not x[1][1][1]")]:
        items.append({"ob": "decode", "src": "def pred(x: %s) -> bool:\n    return %s\n" % (arg, src)})
    return items


def grover_stats(gatelist, nq, n, tab=None):
    """exact integer simulation (concrete oracle table or fully concrete circuit): returns
    (P: dict x -> sum of squared integer amplitudes, hc)"""
    N = 8
    amp, hc = qamp.simulate_affine(gatelist, nq, qamp.zero_init(nq, N), N, oracle_var=lambda x, v: None if (tab is not None and tab[x] == v) else ("zero",))
    P = {}
    for i in range(1 << nq):
        a = amp[i]
        c = a.c.get(None)
        if c is None:
            continue
        if any(c[1:]):
            raise qamp.Unsupported("complex amplitude")
        x = i & ((1 << n) - 1)
        P[x] = P.get(x, 0) + c[0] * c[0]
    return P, hc


def simulate_concrete_table(gatelist, nq, tab, n):
    """replace every SymOracle by its concrete permutation and simulate exactly (repeated oracle
    applications are fine because everything is concrete)"""
    N = 8
    size = 1 << nq
    amp = [0] * size
    amp[0] = 1
    hc = 0
    for g, w, p in gatelist:
        kind, nc = qamp.gate_kind(g)
        if kind in ("NOP", "I"):
            continue
        if kind == "ORACLE":
            ins, out = w[: g.n], w[g.n]
            new = [0] * size
            for i in range(size):
                x = sum(qamp.bit(i, q) << k for k, q in enumerate(ins))
                new[i ^ (1 << out) if tab[x] else i] = amp[i]
            amp = new
            continue
        ctr, tgt = w[:nc], w[nc:]
        on = lambda i: all(qamp.bit(i, q) for q in ctr)
        if kind == "H":
            q = tgt[0]
            hc += 1
            new = list(amp)
            for i in range(size):
                if not qamp.bit(i, q):
                    j = i | (1 << q)
                    new[i] = amp[i] + amp[j]
                    new[j] = amp[i] - amp[j]
            amp = new
        elif kind == "X":
            q = tgt[0]
            amp = [amp[i ^ (1 << q)] if on(i) else amp[i] for i in range(size)]
        elif kind == "Z":
            q = tgt[0]
            amp = [-amp[i] if (on(i) and qamp.bit(i, q)) else amp[i] for i in range(size)]
        else:
            raise qamp.Unsupported("gate " + kind)
    P = {}
    for i in range(size):
        if amp[i]:
            x = i & ((1 << n) - 1)
            P[x] = P.get(x, 0) + amp[i] * amp[i]
    return P, hc


def judge_distribution(P, hc, sols, n):
    """the three clauses of the statement on an exact distribution (integers scaled by 2^hc)"""
    out = []
    tot = sum(P.values())
    if tot != 1 << hc:
        out.append("norm %d != 2^%d" % (tot, hc))
    ps = [P.get(x, 0) for x in sols]
    pn = [P.get(x, 0) for x in range(1 << n) if x not in sols]
    if ps and pn and min(ps) <= max(pn):
        out.append("a non-solution is at least as likely as a solution (min P(sol)=%.3f, max P(non)=%.3f)" % (min(ps) / tot, max(pn) / tot))
    if n <= 6 and 2 * sum(ps) <= tot:
        out.append("P(solution) = %.3f <= 1/2" % (sum(ps) / tot))
    return out


def check_item(spec):
    from qlasskit import qlassf
    from qlasskit.algorithms import Grover

    st = Stats()
    res = {"status": "ok", "findings": [], "nontrivial": True}
    ob = spec["ob"]

    def finding(kind, what):
        res["findings"].append({"kind": kind, "what": what, "cex": {}, "replayed": True})

    if ob in ("symbolic", "table"):
        n, M = spec["n"], spec["M"]
        sb, sa = spec.get("sb", 0), spec.get("sa", 0)
        qf, outs = algo.stub(n, 1, sb, sa, name="pred")
        try:
            G = Grover(qf, n_matching=M)
        except Exception as e:
            finding("constructor-raises", "%s: %s" % (type(e).__name__, str(e)[:100]))
            return st.into(res)
        qc = G.circuit()
        nq = qc.num_qubits
        if list(G.output_qubits) != list(range(n)):
            finding("output-qubits", "output_qubits=%s" % (G.output_qubits,))
        scratch = [i for i in range(n, n + sb)] + [i for i in range(n + sb + 1, n + sb + 1 + sa)]
        if any(set(w) & set(scratch) for g, w, p in qc.gates if not isinstance(g, qamp.SymOracle)):
            finding("touches-scratch", "Grover applies its own gates to the oracle's scratch qubits %s" % scratch)
        if ob == "table":
            tab = [1 if x < M else 0 for x in range(1 << n)]
            # spread the solutions (not only the first M indices)
            tab = [0] * (1 << n)
            for k in range(M):
                tab[(k * 5 + 3) % (1 << n)] = 1
            if sum(tab) != M:
                tab = [1 if x < M else 0 for x in range(1 << n)]
            try:
                P, hc = simulate_concrete_table(qc.gates, nq, tab, n)
            except qamp.Unsupported as e:
                res.update(status="inconclusive", note=str(e))
                return st.into(res)
            sols = {x for x in range(1 << n) if tab[x]}
            for w_ in judge_distribution(P, hc, sols, n):
                finding("grover-table", "n=%d M=%d iterations=%d solutions=%s: %s" % (n, M, G.n_iterations, sorted(sols), w_))
            res["iterations"] = G.n_iterations
            return st.into(res)
        hc = sum(1 for g, w, p in qc.gates if isinstance(g, gates_H()))
        W = hc // 2 + 3
        W2 = 2 * W + nq + 2
        ft = [z3.Bool("f%d" % x) for x in range(1 << n)]
        try:
            amp, hc2 = qamp.simulate_bv(qc.gates, nq, ft, W)
        except qamp.Unsupported as e:
            res.update(status="inconclusive", note=str(e))
            return st.into(res)
        sq = lambda a: z3.SignExt(W2 - W, a) * z3.SignExt(W2 - W, a)
        P = []
        for x in range(1 << n):
            terms = [sq(amp[i]) for i in range(1 << nq) if (i & ((1 << n) - 1)) == x]
            tot = terms[0]
            for t in terms[1:]:
                tot = tot + t
            P.append(tot)
        s = z3.SolverFor("QF_BV")
        s.set("timeout", 1_500_000 if spec["n"] >= 4 else 300_000)
        s.add(z3.PbEq([(b, 1) for b in ft], M))
        viol = z3.Or(*[z3.And(ft[x], z3.Not(ft[y]), z3.ULE(P[x], P[y])) for x in range(1 << n) for y in range(1 << n) if x != y])
        r1 = st.check(s, viol)
        zero = z3.BitVecVal(0, W2)
        psol = zero
        for x in range(1 << n):
            psol = psol + z3.If(ft[x], P[x], zero)
        r2 = st.check(s, z3.ULE(psol, z3.BitVecVal(1 << (hc2 - 1), W2)))
        ptot = P[0]
        for t in P[1:]:
            ptot = ptot + t
        r3 = st.check(s, ptot != z3.BitVecVal(1 << hc2, W2))
        for r, what in ((r1, "some non-solution is at least as likely as some solution"), (r2, "a solution is measured with probability <= 1/2"), (r3, "norm canary: total probability != 1 (bit-vector width too small or engine error)")):
            if r == "sat":
                tab = [1 if z3.is_true(s.model().eval(b, model_completion=True)) else 0 for b in ft]
                Pc, hcc = simulate_concrete_table(qc.gates, nq, tab, n)
                probs = judge_distribution(Pc, hcc, {x for x in range(1 << n) if tab[x]}, n)
                if probs and "norm" not in what:
                    finding("grover-symbolic", "n=%d M=%d iterations=%d f=%s: %s" % (n, M, G.n_iterations, tab, "; ".join(probs)))
                else:
                    res.update(status="inconclusive", note="%s: not reproduced by exact simulation of f=%s" % (what, tab))
            elif r != "unsat":
                res.update(status="inconclusive", note="solver %s on '%s'" % (r, what))
        return st.into(res)

    if ob == "contract":
        try:
            qf = qlassf(spec["src"], to_compile=True)
        except Exception as e:
            res.update(status="skip", note="predicate rejected: %s" % type(e).__name__)
            return st.into(res)
        for kind, what in algo.oracle_contract(qf, st):
            if kind == "HARNESS":
                res.update(status="inconclusive", note=what)
            else:
                finding("contract-" + kind, "%s: %s" % (spec["src"].split("\n")[1].strip(), what))
        return st.into(res)

    if ob == "variants":
        qfs = []
        for src in spec["srcs"]:
            try:
                qfs.append(qlassf(src, to_compile=True))
            except Exception as e:
                res.update(status="skip", note="variant rejected: %s" % type(e).__name__)
                return st.into(res)
        ins = circ.input_bits(qfs[0])
        envs = [boolq.seq_env(q.expressions, ins) for q in qfs]
        s = z3.Solver()
        for a, b in itertools.combinations(range(len(qfs)), 2):
            if st.check(s, z3.Xor(envs[a]["_ret"], envs[b]["_ret"])) == "sat":
                finding("variants-differ", "%r and %r have different solution sets" % (spec["srcs"][a].split("\n")[1].strip(), spec["srcs"][b].split("\n")[1].strip()))
        # same abstract oracle => same exact output distribution of the real Grover circuits
        n = len(ins)
        dists = []
        for q, src in zip(qfs, spec["srcs"]):
            sols = [x for x in range(1 << n) if boolq.eval_exprs_concrete(q.expressions, {b: bool(qamp.bit(x, k)) for k, b in enumerate(ins)})["_ret"]]
            try:
                G = Grover(q, n_matching=max(1, len(sols)))
                qc = G.circuit()
                if qc.num_qubits > 12:
                    dists.append(None)
                    continue
                P, hc = simulate_concrete_table(qc.gates, qc.num_qubits, None, n)
                tot = sum(P.values())
                dists.append({x: (P.get(x, 0), tot) for x in range(1 << n)})
                for w_ in judge_distribution(P, hc, set(sols), n):
                    finding("grover-compiled", "%s: %s" % (src.split("\n")[1].strip(), w_))
            except qamp.Unsupported as e:
                dists.append(None)
        ds = [d for d in dists if d is not None]
        for d in ds[1:]:
            if any(d[x][0] * ds[0][x][1] != ds[0][x][0] * d[x][1] for x in d):
                finding("distribution-depends-on-form", "two syntactic forms of the same predicate give different output distributions")
        return st.into(res)

    if ob == "target":
        try:
            g = qlassf(spec["src"], to_compile=True)
            y = spec["y"]
            G = Grover(g, y)
        except Exception as e:
            if type(e).__name__ == "ConstantOracleException":
                res.update(status="skip", note="constant oracle")
                return st.into(res)
            finding("target-raises", "Grover(g, %r): %s: %s" % (spec["y"], type(e).__name__, str(e)[:80]))
            return st.into(res)
        ins = circ.input_bits(g)
        n = len(ins)
        rets = list(g.returns.bitvec)

        def gval(x):
            w = boolq.eval_exprs_concrete(g.expressions, {b: bool(qamp.bit(x, k)) for k, b in enumerate(ins)})
            if g.returns.ttype is bool:
                return w[rets[0]]
            return sum((1 << j) for j, r in enumerate(rets) if w[r])

        sols = {x for x in range(1 << n) if gval(x) == y}
        qc = G.circuit()
        try:
            P, hc = simulate_concrete_table(qc.gates, qc.num_qubits, None, n)
        except qamp.Unsupported as e:
            res.update(status="inconclusive", note=str(e))
            return st.into(res)
        # declared count is 1 by default: only judge when the target has exactly one preimage
        if len(sols) == 1:
            for w_ in judge_distribution(P, hc, sols, n):
                finding("grover-target", "search g(x) == %r (solutions %s): %s" % (y, sorted(sols), w_))
        for kind, what in algo.oracle_contract(G.oracle, st) if hasattr(G, "oracle") and False else []:
            pass
        return st.into(res)

    if ob == "endtoend":
        from ..circ import opts

        qf = qlassf(spec["src"], to_compile=True, bool_optimizer=opts()[spec.get("opt", "default")])
        ins = circ.input_bits(qf)
        n = len(ins)
        sols = {x for x in range(1 << n) if boolq.eval_exprs_concrete(qf.expressions, {b: bool(qamp.bit(x, k)) for k, b in enumerate(ins)})["_ret"]}
        if not sols or len(sols) * 4 > (1 << n):
            res.update(status="skip", note="solution count outside the statement")
            return st.into(res)
        try:
            G = Grover(qf, n_matching=len(sols))
            qc = G.circuit()
            P, hc = simulate_concrete_table(qc.gates, qc.num_qubits, None, n)
        except qamp.Unsupported as e:
            res.update(status="inconclusive", note=str(e))
            return st.into(res)
        except Exception as e:
            finding("endtoend-raises", "%s: %s" % (type(e).__name__, str(e)[:80]))
            return st.into(res)
        for w_ in judge_distribution(P, hc, sols, n):
            finding("grover-endtoend", "solutions %s, %d iterations: %s" % (sorted(sols), G.n_iterations, w_))
        return st.into(res)

    if ob == "twice":
        qf = qlassf(spec["src"], to_compile=True)
        ins = circ.input_bits(qf)
        n = len(ins)
        sols = {x for x in range(1 << n) if boolq.eval_exprs_concrete(qf.expressions, {b: bool(qamp.bit(x, k)) for k, b in enumerate(ins)})["_ret"]}
        for k in range(3):
            try:
                G = Grover(qf)
                qc = G.circuit()
                P, hc = simulate_concrete_table(qc.gates, qc.num_qubits, None, n)
            except Exception as e:
                finding("twice-raises", "construction #%d from the same QlassF: %s: %s" % (k + 1, type(e).__name__, str(e)[:80]))
                break
            for w_ in judge_distribution(P, hc, sols, n):
                finding("grover-twice", "construction #%d from the same QlassF object: %s" % (k + 1, w_))
        return st.into(res)

    if ob == "decode":
        try:
            qf = qlassf(spec["src"], to_compile=True)
            G = Grover(qf)
        except Exception as e:
            res.update(status="skip", note="%s" % type(e).__name__)
            return st.into(res)
        tw = symx.twin()
        for kind, what in algo.decode_check(tw, "Grover", G, qf, st):
            if kind == "HARNESS":
                res.update(status="inconclusive", note=what)
            else:
                finding(kind, what)
        return st.into(res)
    raise ValueError(ob)


def gates_H():
    from qlasskit.qcircuit import gates

    return gates.H


def coverage(specs, results):
    import collections

    c = collections.Counter(sp["ob"] for sp, r in zip(specs, results) if r["status"] == "ok")
    sk = collections.Counter((sp["ob"], r.get("note", "")[:40]) for sp, r in zip(specs, results) if r["status"] == "skip")
    return {
        "explanation": "Wrapper half: the real Grover constructor builds its circuit around a stub whose oracle is one symbolic gate applied at every iteration; amplitudes are bit-vector terms over the oracle's truth table (solver variables) and z3 decides, for ALL predicates with exactly M solutions, 'every solution beats every non-solution', 'P(solution) > 1/2' and a norm canary. Single-table exact integer simulations extend the iteration-count check to n <= 6. Contract half: every compiled predicate of the corpus is an xor-oracle with clean scratch (engine A), syntactic variants are proved equivalent, and their real Grover circuits are simulated exactly to compare distributions.",
        "evaluations": len(results),
        "distinct_nontrivial": sum(1 for r in results if r["status"] == "ok"),
        "obligations_by_kind": dict(c),
        "skipped": {"%s: %s" % k: v for k, v in sk.items()},
        "samples": [{"obligation": sp["ob"], "n": sp.get("n"), "M": sp.get("M"), "src": sp.get("src"), "verdict": "holds" if not r["findings"] else r["findings"][0]["what"][:160]} for sp, r in list(zip(specs, results))[:: max(1, len(specs) // 6)]][:7],
        "rule": "one item = one obligation instance",
    }


if __name__ == "__main__":
    qamp.selftest()
    boolq.selftest()
    sys.exit(main_for(sys.modules[__name__]))
