"""C16 — Deutsch-Jozsa, Bernstein-Vazirani and Simon circuits meet the textbook guarantees.

Assume-guarantee split (DESIGN §2.4): (D) the real algorithm classes are instantiated around a stub
black box whose circuit is one SymOracle gate; amplitudes are exact affine forms over the oracle's
truth table, which is a vector of solver variables - one query ranges over ALL functions of the
class.  (A) each compiled black box of a corpus satisfies the oracle contract for its own f.
(C) decode_output is executed symbolically on a symbolic measured string.
"""
import sys

import z3

from .. import algo, boolq, circ, qamp, symx
from ..common import Stats, item_id, main_for

PID = "C16"
LEVEL = "other"
ITEM_CAP = {"quick": 300, "thorough": 1500}
FUNCS = ["qlasskit.algorithms.deutschjozsa.DeutschJozsa.{__init__,output_qubits,decode_output}", "qlasskit.algorithms.bernsteinvazirani.{BernsteinVazirani.__init__,decode_output,secret_oracle}", "qlasskit.algorithms.simon.Simon.{__init__,decode_output}", "qlasskit.qcircuit.qcircuit.QCircuit.__iadd__/append_circuit (as used by the wrappers)", "qlasskit.types.interpret_as_qtype"]
BOUNDS = {
    "quick": "DJ n=1..5 (all 2^(2^n) functions symbolic), BV n=1..5 with the secret symbolic, Simon n=2 (f and period symbolic; support and uniformity) and n=3 support; stub layouts {_ret last, scratch after _ret, scratch before and after}; secret_oracle(n,s) for n=2..4 all s; 14 compiled black boxes for the contract; decode_output for bool/Qint/Tuple argument types",
    "thorough": "as quick plus DJ n=6 (2^64 functions), Simon n=3 uniformity, secret_oracle n=5",
}
OUTSIDE = "Simon n >= 4; DJ n >= 7; BV n >= 6; for sizes outside, the claim rests on the oracle-contract half only. Compiled black boxes are enumerated."
ASSUMPTIONS = ["gate table of engine D (H, X, Z, C^nX, barriers) - exact integer amplitudes, global 1/sqrt2^k factored out", "a compiled black box that satisfies the oracle contract acts as the abstract SymOracle on the subspace scratch=0 (the wrappers never touch scratch wires: checked syntactically per stub layout)", "symx shims for decode_output"]

LAYOUTS = [(0, 0), (0, 1), (1, 1)]


def make_items(tier, seed):
    items = []
    for n in range(1, 7 if tier == "thorough" else 6):
        for sb, sa in LAYOUTS:
            items.append({"ob": "dj", "n": n, "sb": sb, "sa": sa})
    for n in range(1, 6):
        for sb, sa in LAYOUTS:
            items.append({"ob": "bv", "n": n, "sb": sb, "sa": sa})
    for sb, sa in LAYOUTS:
        items.append({"ob": "simon-support", "n": 2, "sb": sb, "sa": sa})
        items.append({"ob": "simon-uniform", "n": 2, "sb": sb, "sa": sa})
    items.append({"ob": "simon-support", "n": 3, "sb": 0, "sa": 1})
    if tier == "thorough":
        items.append({"ob": "simon-uniform", "n": 3, "sb": 0, "sa": 0})
    for n in range(2, 6 if tier == "thorough" else 5):
        for s in range(1 << n):
            items.append({"ob": "bv-oracle", "n": n, "s": s})
    boxes = [
        ("dj", "def f(x: Qint[2]) -> bool:\n    return True\n", "constant"),
        ("dj", "def f(x: Qint[3]) -> bool:\n    return x[0] ^ x[1] ^ x[2]\n", "balanced"),
        ("dj", "def f(x: Qint[3]) -> bool:\n    return x < 4\n", "balanced"),
        ("dj", "def f(x: Qint[3]) -> bool:\n    return (x + 3) > 3\n", "balanced"),
        ("dj", "def f(x: Qint[4]) -> bool:\n    return (x + 3) > 7\n", "any"),
        ("dj", "def f(x: Qint[2]) -> bool:\n    return x == 1 or x == 2\n", "balanced"),
        ("dj", "def f(x: Tuple[bool, bool]) -> bool:\n    return x[0] ^ x[1]\n", "balanced"),
        ("dj", "def f(x: bool) -> bool:\n    return not x\n", "balanced"),
        ("dj", "def f(x: Qint[4]) -> bool:\n    return x[3]\n", "balanced"),
        ("simon", "def f(x: Qint[2]) -> Qint[2]:\n    return x >> 1\n", "2to1"),
        ("simon", "def f(x: Qint[3]) -> Qint[3]:\n    return x & 3\n", "2to1"),
        ("simon", "def f(x: Qint[3]) -> Qint[3]:\n    return (x ^ 5) if x[0] else x\n", "any"),
        ("simon", "def f(x: Qint[3]) -> Qint[2]:\n    return x >> 1\n", "2to1"),
        ("simon", "def f(x: Tuple[bool, bool]) -> Tuple[bool, bool]:\n    return (x[0] ^ x[1], False)\n", "2to1"),
        ("bv", "def f(x: Qint[4]) -> bool:\n    return x[0] ^ x[2]\n", "linear"),
        ("bv", "def f(x: Tuple[bool, Qint[2]]) -> bool:\n    return x[0] ^ x[1][1]\n", "linear"),
    ]
    for algo_, src, cls in boxes:
        items.append({"ob": "contract", "algo": algo_, "src": src, "cls": cls})
        items.append({"ob": "decode", "algo": algo_, "src": src})
        items.append({"ob": "endtoend", "algo": algo_, "src": src, "cls": cls})
    # black boxes compiled with the fast optimizer that re-assign their own argument (the argument's
    # name then also labels a scratch qubit): the wrapper must still act on the input qubits
    fast_boxes = [
        ("dj", "def f(k: bool) -> bool:\n    k = not k\n    return k\n", "balanced"),
        ("dj", "def f(k: Qint[2]) -> bool:\n    k = k + 1\n    return k[0]\n", "balanced"),
        ("dj", "def f(k: Qint[2]) -> bool:\n    k = k ^ 1\n    k = k + 1\n    return k[1] ^ k[0]\n", "any"),
        ("bv", "def f(x: Qint[3]) -> bool:\n    x = x ^ 5\n    return x[0] ^ x[2] ^ True\n", "linear"),
        ("simon", "def f(x: Qint[2]) -> Qint[2]:\n    x = x >> 1\n    return x\n", "2to1"),
    ]
    # black boxes that are constant / balanced / two-to-one by their meaning, not by their text: named
    # intermediates, comparisons and if-expressions keep scratch work alive inside the oracle
    deep_boxes = [
        ("dj", "def f(a: Tuple[Qint[2], Qint[2]]) -> bool:\n    m = a[0] if a[0] > a[1] else a[1]\n    return m < a[0]\n", "constant"),
        ("dj", "def f(a: Tuple[Qint[2], Qint[2]]) -> bool:\n    m = a[0] if a[0] > a[1] else a[1]\n    return m >= a[1]\n", "constant"),
        ("dj", "def f(x: Qint[3]) -> bool:\n    t = (x + 1) > x\n    u = x == 7\n    return t or u\n", "constant"),
        ("dj", "def f(x: Qint[3]) -> bool:\n    m = x >> 1\n    g = m > 1\n    return g ^ x[0]\n", "balanced"),
        ("dj", "def f(a: Tuple[Qint[2], bool]) -> bool:\n    m = (a[0] + 1) > 2\n    n = m or (a[0] == 0)\n    return n ^ a[1]\n", "balanced"),
        ("dj", "def f(a: Tuple[bool, bool, bool]) -> bool:\n    t = (a[0] and a[1]) or a[2]\n    u = t and not (a[0] and a[1])\n    return (u or (a[0] and a[1])) != ((a[0] and a[1]) or a[2])\n", "constant"),
        ("simon", "def f(k: Qint[3]) -> Qint[3]:\n    m = k ^ 7\n    return k if k < m else m\n", "2to1"),
        ("simon", "def f(k: Qint[3]) -> Qint[3]:\n    m = k ^ 5\n    return k if k < m else m\n", "2to1"),
        ("bv", "def f(x: Qint[3]) -> bool:\n    t = x[0] ^ x[1]\n    u = t ^ x[1]\n    return u ^ x[2]\n", "linear"),
    ]
    for algo_, src, cls in deep_boxes:
        for opt in ("default", "fast"):
            items.append({"ob": "contract", "algo": algo_, "src": src, "cls": cls, "opt": opt})
            items.append({"ob": "endtoend", "algo": algo_, "src": src, "cls": cls, "opt": opt})
    for algo_, src, cls in fast_boxes:
        items.append({"ob": "contract", "algo": algo_, "src": src, "cls": cls, "opt": "fast"})
        items.append({"ob": "endtoend", "algo": algo_, "src": src, "cls": cls, "opt": "fast"})
    return items


def build_algo(name, qf):
    from qlasskit.algorithms import BernsteinVazirani, DeutschJozsa, Simon

    return {"dj": DeutschJozsa, "bv": BernsteinVazirani, "simon": Simon}[name](qf)


def scratch_untouched(qc, scratch):
    """syntactic frame check: the wrapper's own gates never touch the stub's scratch wires"""
    return all(not (set(w) & set(scratch)) for g, w, p in qc.gates if not isinstance(g, qamp.SymOracle))


def check_item(spec):
    st = Stats()
    res = {"status": "ok", "findings": [], "nontrivial": True}
    ob = spec["ob"]
    s = z3.Solver()
    s.set("rlimit", 400_000_000)
    s.set("timeout", 240_000)

    def finding(kind, what):
        res["findings"].append({"kind": kind, "what": what, "cex": {}, "replayed": True})

    if ob in ("dj", "bv", "simon-support", "simon-uniform"):
        n = spec["n"]
        m = n if ob.startswith("simon") else 1
        qf, outs = algo.stub(n, m, spec["sb"], spec["sa"])
        try:
            A = build_algo("dj" if ob == "dj" else ("bv" if ob == "bv" else "simon"), qf)
        except Exception as e:
            finding("constructor-raises", "%s: %s" % (type(e).__name__, str(e)[:100]))
            return st.into(res)
        qc = A.circuit()
        nq = qc.num_qubits
        stubq = qf.circuit().num_qubits
        scratch = [i for i in range(n, stubq) if i not in outs]
        if nq != stubq:
            finding("qubit-count", "algorithm circuit has %d qubits, black box %d" % (nq, stubq))
            return st.into(res)
        if not scratch_untouched(qc, scratch):
            finding("touches-scratch", "the wrapper applies its own gates to the black box's scratch qubits %s" % scratch)
        if list(A.output_qubits) != list(range(n)):
            finding("output-qubits", "output_qubits=%s, the search register is 0..%d" % (A.output_qubits, n - 1))
        N = 8
        try:
            amp, hc = qamp.simulate_affine(qc.gates, nq, qamp.zero_init(nq, N), N)
        except qamp.Unsupported as e:
            res.update(status="inconclusive", note=str(e))
            return st.into(res)
        F, V, cons = algo.oracle_vars(n, m)
        s.add(*cons)
        reg = lambda i: i & ((1 << n) - 1)
        if ob == "dj":
            ones = z3.Sum([V[("g", x, 1)] for x in range(1 << n)])
            q1 = z3.And(z3.Or(ones == 0, ones == (1 << n)), z3.Or(*[algo.amp_nonzero(amp[i], V, N) for i in range(1 << nq) if reg(i) != 0]))
            v1 = st.check(s, q1)
            q2 = z3.And(ones == (1 << (n - 1)), z3.Or(*[algo.amp_nonzero(amp[i], V, N) for i in range(1 << nq) if reg(i) == 0]))
            v2 = st.check(s, q2)
            for v, what in ((v1, "a constant f is measured as a non-zero string with non-zero probability"), (v2, "a balanced f is measured as all zeros with non-zero probability")):
                if v == "sat":
                    tab = [s.model().eval(F[x], model_completion=True).as_long() for x in range(1 << n)]
                    if replay_prob(qc, nq, n, tab, what):
                        finding("dj-wrong", "n=%d layout=%s: f=%s: %s" % (n, (spec["sb"], spec["sa"]), tab, what))
                    else:
                        res.update(status="inconclusive", note="DJ counterexample did not reproduce numerically")
                elif v != "unsat":
                    res.update(status="inconclusive", note="solver " + v)
            # vacuity: a balanced function exists
            res["nontrivial"] = st.check(s, ones == (1 << (n - 1))) == "sat"
        elif ob == "bv":
            sb = [z3.Bool("s%d" % k) for k in range(n)]
            for x in range(1 << n):
                par = z3.BoolVal(False)
                for k in range(n):
                    if qamp.bit(x, k):
                        par = z3.Xor(par, sb[k])
                s.add(F[x] == z3.If(par, 1, 0))
            terms = []
            for i in range(1 << nq):
                r = reg(i)
                differs = z3.Or(*[sb[k] != z3.BoolVal(bool(qamp.bit(r, k))) for k in range(n)])
                terms.append(z3.And(differs, algo.amp_nonzero(amp[i], V, N)))
            v = st.check(s, z3.Or(*terms))
            if v == "sat":
                mdl = s.model()
                sec = sum((1 << k) for k in range(n) if z3.is_true(mdl.eval(sb[k], model_completion=True)))
                tab = [bin(x & sec).count("1") % 2 for x in range(1 << n)]
                if replay_prob(qc, nq, n, tab, "bv", secret=sec):
                    finding("bv-wrong", "n=%d layout=%s: secret %d is not measured with certainty" % (n, (spec["sb"], spec["sa"]), sec))
                else:
                    res.update(status="inconclusive", note="BV counterexample did not reproduce numerically")
            elif v != "unsat":
                res.update(status="inconclusive", note="solver " + v)
        else:
            sb = [z3.Bool("s%d" % k) for k in range(n)]
            s.add(z3.Or(*sb))
            sval = z3.Sum([z3.If(b, 1 << k, 0) for k, b in enumerate(sb)])
            # two-to-one with period s:  F[x] == F[y]  <=>  y in {x, x xor s}
            for x in range(1 << n):
                for y in range(x + 1, 1 << n):
                    is_pair = z3.And(*[sb[k] == z3.BoolVal(bool(qamp.bit(x ^ y, k))) for k in range(n)])
                    s.add((F[x] == F[y]) == is_pair)
            dot = lambda y: z3.Xor(z3.BoolVal(False), _parity([sb[k] for k in range(n) if qamp.bit(y, k)]))
            if ob == "simon-support":
                terms = [z3.And(dot(reg(i)), algo.amp_nonzero(amp[i], V, N)) for i in range(1 << nq)]
                v = st.check(s, z3.Or(*terms))
                if v == "sat":
                    mdl = s.model()
                    tab = [mdl.eval(F[x], model_completion=True).as_long() for x in range(1 << n)]
                    sec = mdl.eval(sval, model_completion=True).as_long()
                    if replay_prob(qc, nq, n, tab, "simon-support", secret=sec, m=m, outs=outs):
                        finding("simon-wrong", "n=%d f=%s period %d: an outcome y with y.s = 1 has non-zero probability" % (n, tab, sec))
                    else:
                        res.update(status="inconclusive", note="Simon counterexample did not reproduce numerically")
                elif v != "unsat":
                    res.update(status="inconclusive", note="solver " + v)
            else:
                # P(y) = sum over the other qubits of amp^2 ; amplitudes are real integers here
                W = 2 * n + 6
                def bvamp(a):
                    t = z3.BitVecVal(a.c.get(None, (0,) * 4)[0], W)
                    for var, c in a.c.items():
                        if var is None:
                            continue
                        if any(c[1:]):
                            raise qamp.Unsupported("complex amplitude")
                        t = t + z3.If(F[var[1]] == var[2], z3.BitVecVal(c[0], W), z3.BitVecVal(0, W))
                    return t
                P = {}
                for y in range(1 << n):
                    tot = z3.BitVecVal(0, W)
                    for i in range(1 << nq):
                        if reg(i) == y:
                            a = bvamp(amp[i])
                            tot = tot + a * a
                    P[y] = tot
                terms = []
                for y1 in range(1 << n):
                    for y2 in range(y1 + 1, 1 << n):
                        terms.append(z3.And(z3.Not(dot(y1)), z3.Not(dot(y2)), P[y1] != P[y2]))
                # case split on the secret (one query per non-zero s): the disjunction over all
                # secrets at n=3 exceeds the resource limit, each case is decided in seconds
                v = "unsat"
                for sc in range(1, 1 << n):
                    fix = z3.And(*[sb[k] == z3.BoolVal(bool(qamp.bit(sc, k))) for k in range(n)])
                    v = st.check(s, z3.And(fix, z3.Or(*terms)))
                    if v != "unsat":
                        break
                if v == "sat":
                    mdl = s.model()
                    tab = [mdl.eval(F[x], model_completion=True).as_long() for x in range(1 << n)]
                    sec = mdl.eval(sval, model_completion=True).as_long()
                    if replay_prob(qc, nq, n, tab, "simon-uniform", secret=sec, m=m, outs=outs):
                        finding("simon-wrong", "n=%d f=%s period %d: outcomes with y.s = 0 are not equally likely" % (n, tab, sec))
                    else:
                        res.update(status="inconclusive", note="Simon uniformity counterexample did not reproduce numerically")
                elif v != "unsat":
                    res.update(status="inconclusive", note="solver " + v)
            res["nontrivial"] = st.check(s) == "sat"
        return st.into(res)

    if ob == "bv-oracle":
        from qlasskit.algorithms.bernsteinvazirani import secret_oracle

        n, sec = spec["n"], spec["s"]
        try:
            qf = secret_oracle(n, sec)
        except Exception as e:
            finding("secret-oracle-raises", "secret_oracle(%d, %d): %s: %s" % (n, sec, type(e).__name__, str(e)[:80]))
            return st.into(res)
        for kind, what in algo.oracle_contract(qf, st):
            if kind == "HARNESS":
                res.update(status="inconclusive", note=what)
            else:
                finding("contract-" + kind, "secret_oracle(%d,%d): %s" % (n, sec, what))
        ins = circ.input_bits(qf)
        env = boolq.seq_env(qf.expressions, ins)
        par = z3.BoolVal(False)
        for k in range(n):
            if qamp.bit(sec, k):
                par = z3.Xor(par, z3.Bool(ins[k]))
        if st.check(s, z3.Xor(env["_ret"], par)) == "sat":
            asg = boolq.model_bools(s.model(), ins)
            got = boolq.eval_exprs_concrete(qf.expressions, asg)["_ret"]
            finding("secret-oracle-function", "secret_oracle(%d,%d) on x=%s returns %s, s.x is %s" % (n, sec, asg, got, not got))
        return st.into(res)

    # compiled black boxes
    from qlasskit import qlassf

    try:
        if spec.get("opt") == "fast":
            from qlasskit.boolopt import fastOptimizer

            qf = qlassf(spec["src"], to_compile=True, bool_optimizer=fastOptimizer)
        else:
            qf = qlassf(spec["src"], to_compile=True)
    except Exception as e:
        res.update(status="skip", note="black box does not compile: %s" % type(e).__name__)
        return st.into(res)
    if ob == "contract":
        for kind, what in algo.oracle_contract(qf, st):
            if kind == "HARNESS":
                res.update(status="inconclusive", note=what)
            else:
                finding("contract-" + kind, what)
        return st.into(res)
    try:
        A = build_algo(spec["algo"], qf)
    except Exception as e:
        finding("constructor-raises", "%s: %s" % (type(e).__name__, str(e)[:100]))
        return st.into(res)
    if ob == "decode":
        # decode_counts on a measure-all histogram: the helper qubits split each outcome over
        # several raw strings; outcomes are aggregated before any threshold is applied (concrete)
        try:
            n_out = len(A.output_qubits)
            nq_all = A.circuit().num_qubits
            low = "".join("1" if (j * 3 + 1) % 2 else "0" for j in range(n_out))
            hi = nq_all - n_out
            if hi >= 1:
                k1, k2 = "0" * hi + low, "1" + "0" * (hi - 1) + low
                want = A.decode_output(low)
                for thr in (None, 600):
                    got = A.decode_counts({k1: 500, k2: 524}, discard_lower=thr)
                    if got != {want: 1024}:
                        finding("decode-counts", "decode_counts({%s: 500, %s: 524}, discard_lower=%s) = %r, expected {%r: 1024}" % (k1, k2, thr, got, want))
                        break
        except Exception as e:
            finding("decode-counts", "decode_counts raises %s: %s" % (type(e).__name__, str(e)[:80]))
        tw = symx.twin()
        cls = {"dj": "DeutschJozsa", "bv": "BernsteinVazirani", "simon": "Simon"}[spec["algo"]]
        for kind, what in algo.decode_check(tw, cls, A, qf, st, expect="dj" if spec["algo"] == "dj" else "value"):
            if kind == "HARNESS":
                res.update(status="inconclusive", note=what)
            else:
                finding(kind, what)
        return st.into(res)
    if ob == "endtoend":
        # concrete black box: exact amplitudes of the real algorithm circuit around the real compiled
        # circuit (no oracle variables) - closes the loop for this program
        if int(item_id(spec), 16) % 2 == 0:
            # the black box object is used by a second wrapper (and, for half of these, by a Grover
            # search in between): the later construction is the one judged
            try:
                if int(item_id(spec), 16) % 4 == 0 and qf.returns.ttype is bool:
                    from qlasskit.algorithms import Grover

                    Grover(qf)
                A = build_algo(spec["algo"], qf)
            except Exception as e:
                finding("constructor-raises", "second construction from the same QlassF: %s: %s" % (type(e).__name__, str(e)[:100]))
                return st.into(res)
        qc = A.circuit()
        nq = qc.num_qubits
        if nq > 12:
            res.update(status="skip", note="%d qubits" % nq)
            return st.into(res)
        n = len(qf.args[0])
        N = 8
        amp, hc = qamp.simulate_affine(qc.gates, nq, qamp.zero_init(nq, N), N)
        ins = circ.input_bits(qf)
        rets = list(qf.returns.bitvec)

        def fval(x):
            asg = {b: bool(qamp.bit(x, k)) for k, b in enumerate(ins)}
            w = boolq.eval_exprs_concrete(qf.expressions, asg)
            return sum((1 << j) for j, r in enumerate(rets) if w[r])

        tab = [fval(x) for x in range(1 << n)]
        prob = {}
        for i in range(1 << nq):
            c = amp[i].const(N)
            if any(c):
                y = i & ((1 << n) - 1)
                prob[y] = prob.get(y, 0) + sum(v * v for v in c)  # N=8, real amplitudes only: c[0]
        if spec["algo"] == "dj":
            ones = sum(tab)
            if ones in (0, 1 << n) and set(prob) != {0}:
                finding("dj-wrong", "constant black box measured outside all-zeros: %s" % sorted(prob))
            if ones == (1 << (n - 1)) and 0 in prob:
                finding("dj-wrong", "balanced black box %s measures all zeros with non-zero probability" % spec["src"].split("\n")[1].strip())
        elif spec["algo"] == "bv":
            # linear f: secret = (f(e_k))_k
            sec = sum((1 << k) for k in range(n) if tab[1 << k])
            if all(tab[x] == bin(x & sec).count("1") % 2 for x in range(1 << n)) and set(prob) != {sec}:
                finding("bv-wrong", "secret %d, outcomes %s" % (sec, sorted(prob)))
        else:
            per = [d for d in range(1, 1 << n) if all(tab[x] == tab[x ^ d] for x in range(1 << n))]
            two = all(sum(1 for y in range(1 << n) if tab[y] == tab[x]) == 2 for x in range(1 << n))
            if two and len(per) == 1:
                sec = per[0]
                bad = [y for y in prob if bin(y & sec).count("1") % 2]
                good = [prob.get(y, 0) for y in range(1 << n) if bin(y & sec).count("1") % 2 == 0]
                if bad or len(set(good)) != 1:
                    finding("simon-wrong", "period %d: outcomes %s" % (sec, prob))
        return st.into(res)
    raise ValueError(ob)


def _parity(bs):
    r = z3.BoolVal(False)
    for b in bs:
        r = z3.Xor(r, b)
    return r


def replay_prob(qc, nq, n, tab, what, secret=None, m=1, outs=None):
    """dense numpy simulation of the real gate list with a concrete oracle table; returns True if
    the violation is real"""
    import numpy as np

    U = qamp.dense_unitary(qc.gates, nq, oracle_table=tab)
    st = U[:, 0]
    pr = {}
    for i, a in enumerate(st):
        p = float(abs(a) ** 2)
        if p > 1e-12:
            y = i & ((1 << n) - 1)
            pr[y] = pr.get(y, 0.0) + p
    if what.startswith("a constant"):
        return any(y != 0 for y in pr)
    if what.startswith("a balanced"):
        return 0 in pr
    if what == "bv":
        return set(pr) != {secret}
    if what == "simon-support":
        return any(bin(y & secret).count("1") % 2 for y in pr)
    if what == "simon-uniform":
        good = [pr.get(y, 0.0) for y in range(1 << n) if bin(y & secret).count("1") % 2 == 0]
        return max(good) - min(good) > 1e-9
    return False


def worker_init():
    pass


def coverage(specs, results):
    import collections

    c = collections.Counter(sp["ob"] for sp, r in zip(specs, results) if r["status"] == "ok")
    return {
        "explanation": "Wrapper half: the real DeutschJozsa/BernsteinVazirani/Simon constructors build their circuit around a stub whose black box is one symbolic-oracle gate; amplitudes are exact affine forms in the oracle's truth table and z3 decides the textbook statement for every function of the class at once (DJ n=5: all 2^32 functions; BV: every secret; Simon: every two-to-one f and period). Contract half: each compiled black box maps |x>|y>|0> to |x>|y^f(x)>|0> for all x,y (engine A). decode_output runs symbolically on a symbolic reading.",
        "evaluations": len(results),
        "distinct_nontrivial": sum(1 for r in results if r["status"] == "ok" and r.get("nontrivial")),
        "obligations_by_kind": dict(c),
        "samples": [{"obligation": sp["ob"], "n": sp.get("n"), "layout": (sp.get("sb"), sp.get("sa")), "src": sp.get("src"), "verdict": "holds" if not r["findings"] else r["findings"][0]["what"][:160]} for sp, r in list(zip(specs, results))[:: max(1, len(specs) // 6)]][:7],
        "rule": "one item = one obligation instance (algorithm, size, stub layout) or one compiled black box",
    }


if __name__ == "__main__":
    qamp.selftest()
    boolq.selftest()
    sys.exit(main_for(sys.modules[__name__]))
