"""C17 — command-line tools print what the library computes."""
import contextlib
import io
import itertools
import os
import re
import sys
import tempfile

import z3

from .. import boolq
from ..common import Stats, item_id, main_for, slice_quick

PID = "C17"
LEVEL = "translation_validation"
ITEM_CAP = {"quick": 240, "thorough": 900}
FUNCS = ["qlasskit.tools.py2bexp.{main,convert_to_bool_expression,convert_to_dimacs,output_result}", "qlasskit.tools.py2qasm.{main,convert_to_quasm}", "qlasskit.tools.utils.{parse_str,parse_file}", "qlasskit.tools.tools.find_last_qlassf"]
BOUNDS = "30 function bodies (some declared through @qlassfa with uncompute=False / to_compile=False / the fast optimizer) (1-6 argument bits; single clause CNFs, constants, intermediates/CSE, multi-bit returns, tuples) arranged in scripts of 1-3 functions x forms {none,anf,cnf,dnf,nnf} x formats {sympy,dimacs} x entry point choices x qasm versions {2.0,3.0}; all argument bits symbolic; DIMACS numbering found by the solver (<= 6 variables)"
OUTSIDE = "scripts enumerated; tools run in-process (sys.argv / stdout redirected) instead of through a `python` subprocess; tweedledum/recompiler back-ends of py2qasm; scripts with more than one function and no -e option (the statement promises nothing there)"
ASSUMPTIONS = ["a small precedence parser for sympy's Boolean printer (~ > & > | > ^, as in sympy.printing.precedence)", "the DIMACS variable numbering is not printed: the check asks z3 for ANY bijection under which the clause set has the expression's satisfying assignments"]

BODIES = [
    ("b_and", "a: bool, b: bool", "bool", ["return a and b"]),
    ("b_or", "a: bool, b: bool", "bool", ["return a or b"]),
    ("b_or3", "a: bool, b: bool, c: bool", "bool", ["return a or b or c"]),
    ("b_not", "a: bool", "bool", ["return not a"]),
    ("b_id", "a: bool", "bool", ["return a"]),
    ("b_xor", "a: bool, b: bool, c: bool", "bool", ["return a ^ b ^ c"]),
    ("b_true", "a: bool", "bool", ["return True"]),
    ("b_false", "a: bool", "bool", ["return a and not a"]),
    ("b_mix", "a: bool, b: bool, c: bool, d: bool", "bool", ["return (a and b) or (c and not d)"]),
    ("b_inter", "a: bool, b: bool, c: bool", "bool", ["t = a and b", "u = t ^ c", "return u or (t and c)"]),
    ("b_cse", "a: bool, b: bool, c: bool, d: bool", "Tuple[bool, bool]", ["return ((a and b and c) ^ d, (a and b and c) or d)"]),
    ("b_ite", "a: bool, b: bool, c: bool", "bool", ["return b if a else c"]),
    ("b_neg", "a: bool, b: bool", "bool", ["return a and not b"]),
    ("b_orneg", "a: bool, b: bool, c: bool", "bool", ["return (a or b) and not c"]),
    ("i_eq", "a: Qint[2]", "bool", ["return a == 2"]),
    ("i_gt", "a: Qint[2], b: Qint[2]", "bool", ["return a > b"]),
    ("i_add", "a: Qint[2], b: Qint[2]", "Qint[2]", ["return a + b"]),
    ("i_const", "a: bool, b: bool", "Qint[2]", ["return 1 if (a or b) else 0"]),
    ("i_and1", "a: Qint[2], b: Qint[2]", "Qint[2]", ["return (a ^ b) & 1"]),
    ("i_eqb", "a: Qint[2], b: bool", "bool", ["return a == 1 and b"]),
    ("i_sum", "a: Qint[2]", "Qint[4]", ["c = a + 1", "return c + a"]),
    ("t_pair", "a: Tuple[bool, bool]", "bool", ["return a[0] and not a[1]"]),
    ("b_unit2", "a: bool, b: bool, c: bool", "bool", ["return a and (b or c)"]),
    ("b_big", "a: bool, b: bool, c: bool, d: bool, e: bool", "bool", ["return (a or b) and (c or d) and (e or not a)"]),
    ("i_mul", "a: Qint[3], b: Qint[3]", "bool", ["c = a * b", "return c > 3"]),
    ("i_sum3", "a: Qint[3], b: Qint[3]", "bool", ["c = a + b", "d = c + a", "return d == 3"]),
    ("i_eq3", "a: Qint[4], b: Qint[4]", "bool", ["return a + b == 3"]),
    ("i_eq9", "a: Qint[4], b: Qint[4], c: bool", "bool", ["return (a == b) and c"]),
    # fast optimizer: re-assigned locals / arguments keep several definitions of one symbol
    ("f_reas", "a: bool, b: bool, c: bool", "bool", ["x = a and b", "y = x or c", "x = b ^ c", "return y and x"]),
    ("f_arg", "a: bool, b: bool, c: bool", "bool", ["t = a or c", "a = b and c", "return t ^ a"]),
    ("f_if", "a: bool, b: bool, c: bool", "Tuple[bool, bool]", ["x = a", "if c:", "    x = x ^ b", "y = x and a", "x = not x", "return (y, x)"]),
]
# how the function object is created in the script (default: plain @qlassf)
DECO = {"i_eq3": "@qlassfa(uncompute=False)", "i_sum3": "@qlassfa(to_compile=False)", "b_inter": "@qlassfa(uncompute=False)", "i_gt": "@qlassfa(bool_optimizer=fastOptimizer)", "f_reas": "@qlassfa(bool_optimizer=fastOptimizer)", "f_arg": "@qlassfa(bool_optimizer=fastOptimizer)", "f_if": "@qlassfa(bool_optimizer=fastOptimizer)"}
FORMS = [None, "anf", "cnf", "dnf", "nnf"]


def fsrc(name, args, ret, body, deco=True):
    d = (DECO.get(name, "@qlassf") + "\n") if deco else ""
    return d + "def %s(%s) -> %s:\n" % (name, args, ret) + "".join("    %s\n" % l for l in body)


def script(names, alias=None):
    out = "from typing import Tuple\nfrom qlasskit import qlassf, qlassfa, Qint, Qint2, Qint4\nfrom qlasskit.boolopt import fastOptimizer\n\n"
    for n in names:
        b = [x for x in BODIES if x[0] == n][0]
        out += fsrc(*b) + "\n"
    if alias:
        # a function object bound to a different name than its def
        b = [x for x in BODIES if x[0] == alias[1]][0]
        out += "%s = qlassf(%r)\n" % (alias[0], fsrc(b[0] + "_inner", b[1], b[2], b[3], deco=False))
    return out


def make_items(tier, seed):
    items = []
    names = [b[0] for b in BODIES]
    # single-function scripts, no -e
    for n in names:
        for form in FORMS:
            items.append({"tool": "bexp", "funcs": [n], "entry": None, "target": n, "form": form, "fmt": "sympy"})
        items.append({"tool": "bexp", "funcs": [n], "entry": None, "target": n, "form": "cnf", "fmt": "dimacs"})
        items.append({"tool": "bexp", "funcs": [n], "entry": None, "target": n, "form": None, "fmt": "dimacs"})
        for v in ("2.0", "3.0"):
            items.append({"tool": "qasm", "funcs": [n], "entry": None, "target": n, "version": v})
    # multi-function scripts with -e
    trios = [("b_and", "b_or", "b_xor"), ("b_mix", "i_gt", "b_not"), ("i_add", "b_inter", "b_neg"), ("b_cse", "b_id", "i_eqb"), ("b_or3", "b_false", "b_big")]
    for tr in trios:
        for e in tr:
            for form in (None, "cnf", "dnf"):
                items.append({"tool": "bexp", "funcs": list(tr), "entry": e, "target": e, "form": form, "fmt": "sympy"})
            items.append({"tool": "bexp", "funcs": list(tr), "entry": e, "target": e, "form": "cnf", "fmt": "dimacs"})
            items.append({"tool": "qasm", "funcs": list(tr), "entry": e, "target": e, "version": "3.0"})
    # an entry bound under another name than its def's own name
    items.append({"tool": "bexp", "funcs": ["b_and", "b_xor"], "alias": ["zz_alias", "b_mix"], "entry": "zz_alias", "target": "b_mix", "form": "cnf", "fmt": "sympy"})
    items.append({"tool": "bexp", "funcs": ["b_mix"], "alias": ["aa_alias", "b_and"], "entry": "b_mix", "target": "b_mix", "form": None, "fmt": "sympy"})
    items.append({"tool": "qasm", "funcs": ["b_and", "b_xor"], "alias": ["zz_alias", "b_or"], "entry": "zz_alias", "target": "b_or", "version": "3.0"})
    return items


# ------------------------------------------------------------------ parser for sympy's printer
TOK = re.compile(r"\s*(True|False|[A-Za-z_][A-Za-z0-9_.]*|[~&|^()])")


def parse_bool(text, env):
    toks = []
    pos = 0
    text = text.strip()
    while pos < len(text):
        m = TOK.match(text, pos)
        if not m:
            raise ValueError("cannot tokenise %r at %d" % (text, pos))
        toks.append(m.group(1))
        pos = m.end()
    i = [0]

    def peek():
        return toks[i[0]] if i[0] < len(toks) else None

    def eat(t=None):
        x = peek()
        if t is not None and x != t:
            raise ValueError("expected %r, got %r in %r" % (t, x, text))
        i[0] += 1
        return x

    def p_xor():
        r = p_or()
        while peek() == "^":
            eat()
            r = z3.Xor(r, p_or())
        return r

    def p_or():
        r = [p_and()]
        while peek() == "|":
            eat()
            r.append(p_and())
        return z3.Or(*r) if len(r) > 1 else r[0]

    def p_and():
        r = [p_not()]
        while peek() == "&":
            eat()
            r.append(p_not())
        return z3.And(*r) if len(r) > 1 else r[0]

    def p_not():
        if peek() == "~":
            eat()
            return z3.Not(p_not())
        if peek() == "(":
            eat()
            r = p_xor()
            eat(")")
            return r
        t = eat()
        if t == "True":
            return z3.BoolVal(True)
        if t == "False":
            return z3.BoolVal(False)
        if t is None or not re.match(r"[A-Za-z_]", t):
            raise ValueError("unexpected token %r in %r" % (t, text))
        if t not in env:
            raise KeyError(t)
        return env[t]

    r = p_xor()
    if peek() is not None:
        raise ValueError("trailing tokens in %r" % text)
    return r


def run_tool(mod, argv, stdin_text=None):
    out, err = io.StringIO(), io.StringIO()
    old_argv, old_stdin = sys.argv, sys.stdin
    sys.argv = argv
    if stdin_text is not None:
        sys.stdin = io.StringIO(stdin_text)
    try:
        with contextlib.redirect_stdout(out), contextlib.redirect_stderr(err):
            mod.main()
    except SystemExit:
        pass
    finally:
        sys.argv, sys.stdin = old_argv, old_stdin
    return out.getvalue(), err.getvalue()


def check_item(spec):
    from qlasskit import qlassf
    from qlasskit.tools import py2bexp, py2qasm

    st = Stats()
    res = {"status": "ok", "findings": [], "nontrivial": True}

    def finding(kind, what):
        res["findings"].append({"kind": kind, "what": what, "cex": {}, "replayed": True})

    scr = script(spec["funcs"], spec.get("alias"))
    b = [x for x in BODIES if x[0] == spec["target"]][0]
    # the library's own view of the selected function (fresh compilation)
    kw = {}
    if "fastOptimizer" in DECO.get(b[0], ""):
        from qlasskit.boolopt import fastOptimizer

        kw["bool_optimizer"] = fastOptimizer
    ref = qlassf(fsrc(b[0], b[1], b[2], b[3], deco=False), to_compile=True, **kw)
    ins = [x for a in ref.args for x in a.bitvec]
    env = boolq.seq_env(ref.expressions, ins)
    want = z3.And(*[env[r] for r in ref.returns.bitvec])
    # the input file is any path the user names: with and without a python suffix
    fd, path = tempfile.mkstemp(prefix="qv_c17_", suffix=(".py", "", ".txt", ".qlassf")[int(item_id(spec), 16) // 2 % 4], dir="/var/tmp")
    os.write(fd, scr.encode())
    os.close(fd)
    try:
        use_stdin = int(item_id(spec), 16) % 2 == 0
        argv_in = [] if use_stdin else ["-i", path]
        if spec["tool"] == "bexp":
            argv = ["py2bexp"] + argv_in
            if spec["entry"]:
                argv += ["-e", spec["entry"]]
            if spec["form"]:
                argv += ["-f", spec["form"]]
            if spec["fmt"] != "sympy":
                argv += ["-t", spec["fmt"]]
            try:
                out, err = run_tool(py2bexp, argv, scr if use_stdin else None)
            except Exception as e:
                finding("tool-raises", "%s raises %s: %s" % (" ".join(argv[1:]), type(e).__name__, str(e)[:100]))
                return st.into(res)
            text = out.strip()
            if not text:
                finding("no-output", "%s printed nothing (stderr: %s)" % (" ".join(argv[1:]), err.strip()[:80]))
                return st.into(res)
            s = z3.Solver()
            if spec["fmt"] == "sympy":
                zenv = {x: z3.Bool(x) for x in ins}
                try:
                    got = parse_bool(text, zenv)
                except KeyError as e:
                    finding("foreign-symbol", "%s prints %r which mentions %s, not an argument bit of %s" % (" ".join(argv[1:]), text[:100], e, spec["target"]))
                    return st.into(res)
                except ValueError as e:
                    finding("unparsable", "%s prints %r (%s)" % (" ".join(argv[1:]), text[:100], e))
                    return st.into(res)
                v = st.check(s, z3.Xor(got, want))
                if v == "sat":
                    asg = boolq.model_bools(s.model(), ins)
                    w = boolq.eval_exprs_concrete(ref.expressions, asg)
                    lib = all(w[r] for r in ref.returns.bitvec)
                    finding("not-equivalent", "%s prints %r; on %s the conjunction of the return bits is %s" % (" ".join(argv[1:]), text[:120], asg, lib))
                elif v != "unsat":
                    res.update(status="inconclusive", note="solver " + v)
                # shape of the requested normal form
                if spec["form"] in ("cnf", "dnf") and v == "unsat":
                    pass
            else:
                lines = [l for l in text.split("\n") if l.strip()]
                m = re.fullmatch(r"p cnf (\d+) (\d+)", lines[0].strip())
                if not m:
                    finding("dimacs-header", "first line %r" % lines[0])
                    return st.into(res)
                nv, nc = int(m.group(1)), int(m.group(2))
                clauses = []
                for l in lines[1:]:
                    nums = [int(x) for x in l.split()]
                    if not nums or nums[-1] != 0:
                        finding("dimacs-clause", "clause line %r does not end with 0" % l)
                        return st.into(res)
                    clauses.append(nums[:-1])
                if len(clauses) != nc:
                    finding("dimacs-header", "header announces %d clauses, %d printed" % (nc, len(clauses)))
                if any(abs(x) < 1 or abs(x) > nv for c in clauses for x in c):
                    finding("dimacs-header", "literal outside 1..%d" % nv)
                    return st.into(res)
                # support of the function
                sup = [x for x in ins if st.check(s, z3.Xor(want, z3.substitute(want, (z3.Bool(x), z3.Not(z3.Bool(x)))))) == "sat"]
                k = len(sup)
                if nv < k or nv > len(ins):
                    finding("dimacs-vars", "%d DIMACS variables for a function of %d argument bits (%d in its support)" % (nv, len(ins), k))
                    return st.into(res)
                if nv > 6:
                    res.update(status="skip", note="more than 6 variables")
                    return st.into(res)
                # find a one-to-one numbering: DIMACS variable i -> argument bit pi[i]
                names = sup + [x for x in ins if x not in sup]
                names = names[: max(nv, k)]
                pi = [z3.Int("pi%d" % i) for i in range(nv)]
                s2 = z3.Solver()
                s2.add(*[z3.And(p >= 0, p < len(names)) for p in pi])
                if nv > 1:
                    s2.add(z3.Distinct(*pi))
                for alpha in itertools.product([False, True], repeat=len(names)):
                    val = lambda p: z3.Or(*[z3.And(p == j, z3.BoolVal(alpha[j])) for j in range(len(names))])
                    cnf = z3.And(*[z3.Or(*[(val(pi[abs(x) - 1]) if x > 0 else z3.Not(val(pi[abs(x) - 1]))) for x in c]) if c else z3.BoolVal(False) for c in clauses]) if clauses else z3.BoolVal(True)
                    wv = z3.substitute(want, *[(z3.Bool(nm), z3.BoolVal(alpha[j])) for j, nm in enumerate(names)] + [(z3.Bool(nm), z3.BoolVal(False)) for nm in ins if nm not in names])
                    s2.add(cnf == z3.simplify(wv))
                v = st.check(s2)
                if v == "unsat":
                    finding("dimacs-not-equivalent", "%s prints %r: under no one-to-one numbering of %s does the clause set have the satisfying assignments of %s" % (" ".join(argv[1:]), text.replace("\n", " / ")[:140], names, spec["target"]))
                elif v != "sat":
                    res.update(status="inconclusive", note="solver " + v)
        else:
            argv = ["py2qasm"] + argv_in + ["-q", spec["version"]]
            if spec["entry"]:
                argv += ["-e", spec["entry"]]
            try:
                out, err = run_tool(py2qasm, argv, scr if use_stdin else None)
            except Exception as e:
                finding("tool-raises", "%s raises %s: %s" % (" ".join(argv[1:]), type(e).__name__, str(e)[:100]))
                return st.into(res)
            from qlasskit.qcircuit.exporter_qasm import QasmExporter

            ver = 3 if spec["version"] == "3.0" else 2
            exp = QasmExporter(version=ver).export(ref.circuit(), "circuit")
            name_fix = lambda t: re.sub(r"\b%s_inner\b" % re.escape(b[0]), b[0], t)
            if name_fix(out).strip() != exp.strip():
                finding("qasm-differs", "%s does not print the QASM %s export of %s's circuit: got %r..., expected %r..." % (" ".join(argv[1:]), spec["version"], spec["target"], out.strip()[:80], exp.strip()[:80]))
            else:
                # and the printed text denotes the circuit (C13's reader)
                from . import c13
                from .. import qamp

                try:
                    imp, finds = c13.read_qasm(name_fix(out), "circuit", ver, ref.circuit().num_qubits, ref.circuit().name)
                    for kk, ww in finds:
                        finding("qasm-" + kk, ww)
                    if imp is not None:
                        qc = ref.circuit()
                        xs = [z3.Bool("x%d" % i) for i in range(qc.num_qubits)]
                        s = z3.Solver()
                        q = z3.Or(*[z3.Xor(a, c_) for a, c_ in zip(boolq.simcirc(qc.gates, xs), boolq.simcirc(imp, xs))])
                        if st.check(s, q) == "sat":
                            finding("qasm-not-equivalent", "printed QASM acts differently from the compiled circuit")
                except (qamp.Unsupported, boolq.Unsupported) as e:
                    res.update(status="skip", note=str(e))
    finally:
        try:
            os.unlink(path)
        except OSError:
            pass
    return st.into(res)


def coverage(specs, results):
    import collections

    c = collections.Counter((sp["tool"], sp.get("fmt", sp.get("version"))) for sp, r in zip(specs, results) if r["status"] == "ok")
    return {
        "programs": sum(1 for r in results if r["status"] == "ok"),
        "disagreements_checked": sum(1 for r in results if r["findings"]),
        "samples": [{"argv": "py2bexp -e b_mix -f cnf -t dimacs", "verdict": "clause set equisatisfiable assignment-for-assignment with the conjunction of b_mix's return bits under a solver-found numbering"}, {"spec": specs[0]}],
        "invocations_by_tool_and_format": {"%s/%s" % k: v for k, v in c.items()},
        "distinct_nontrivial": sum(1 for r in results if r["status"] == "ok"),
        "evaluations": len(results),
        "rule": "one item = one command line; the printed expression is parsed and compared by z3 with the library's expressions of the selected function on all argument bits",
    }


if __name__ == "__main__":
    boolq.selftest()
    sys.exit(main_for(sys.modules[__name__]))
