"""C18 — the quadratic-model export has the function's minimisers as ground states."""
import itertools
import sys
import typing

import z3

from .. import boolq, circ, corpus, pyqubo_stub, symx
from ..common import Stats, item_id, main_for, slice_quick

PID = "C18"
LEVEL = "translation_validation"
ITEM_CAP = {"quick": 120, "thorough": 600}
FUNCS = ["qlasskit.qlassfun.QlassF.to_bqm", "qlasskit.bqm.{to_bqm,SympyToBQM.visit,decode_samples}", "qlasskit.boolopt.bool_optimizer.merge_expressions", "qlasskit.types.interpret_as_qtype"]
BOUNDS = {"quick": "core + seed slice of ~450 programs (boolean families, comparisons, multi-bit arithmetic, tuples; <= 10 argument bits) x formats {bqm, ising, qubo, pq_model}; all input bits and auxiliaries symbolic; decode_samples on a symbolic sample for 12 signatures", "thorough": "the whole program universe"}
OUTSIDE = "the real pyqubo/dimod conversions: pyqubo is absent, a stand-in module (qv/pyqubo_stub.py) gives And=ab, Or=a+b-ab, Xor=a+b-2ab, Not=1-a and the *Const penalties as integer polynomials, so the four formats are one claim about the polynomial handed to the library; constant functions (to_bqm refuses an empty problem)"
ASSUMPTIONS = ["energies of pyqubo's logic gates and constraints as documented by pyqubo (table in qv/pyqubo_stub.py); python bools are accepted as the constants 0/1", "symx shims for decode_samples"]


def worker_init():
    sys.modules["pyqubo"] = pyqubo_stub


def progs():
    P = corpus.u_bool_small()[:100] + corpus.u_bool_multistmt()[:60] + corpus.u_bool_random(120)
    P += [p for p in corpus.u_unit(widths=(2, 3)) if p[0] in ("unit-cmp", "unit-constcmp", "unit-arith", "unit-index", "unit-shift")][::3]
    P += [p for p in corpus.u_ctl() if "fixed" not in p[0]]
    from .. import corpus2

    # generated multi-statement programs (small ones: the quadratic model is decided over all inputs and auxiliaries)
    P += [p for p in corpus2.u_prog2(500) if corpus.size_ok(p[1], 8, 70) and "Qchar" not in p[1]][:120]
    extra = [
        ("bqm", "def prog(a: bool) -> bool:\n    return a\n"),
        ("bqm", "def prog(a: bool, b: bool) -> bool:\n    return b\n"),
        ("bqm", "def prog(a: bool) -> bool:\n    return not a\n"),
        ("bqm", "def prog(a: bool, b: bool, c: bool) -> bool:\n    return a and b and not c\n"),
        ("bqm", "def prog(a: bool, b: bool, c: bool, d: bool, e: bool) -> bool:\n    return a and b and c and d and e\n"),
        ("bqm", "def prog(a: Qint[3]) -> bool:\n    return a != 5\n"),
        ("bqm", "def prog(a: Qint[2], b: Qint[2], c: bool) -> bool:\n    return a == 3 and b == 1 and c\n"),
        ("bqm", "def prog(a: Qint[2], b: Qint[2]) -> Tuple[bool, bool, bool]:\n    return (a[0] ^ b[0], a[0] ^ b[0], not (a[0] ^ b[0]))\n"),
        ("bqm", "def prog(a: Qint[2], b: Qint[2]) -> Tuple[bool, bool, bool]:\n    return (a[0] ^ b[0], a[0] ^ b[0], a == b)\n"),
        ("bqm", "def prog(a: bool, b: bool) -> Tuple[bool, bool]:\n    return (a, b)\n"),
        ("bqm", "def prog(a: bool, b: bool) -> Tuple[bool, bool]:\n    return (a or b, a or b)\n"),
        ("bqm", "def prog(a: Qint[2]) -> Qint[2]:\n    return a\n"),
        ("bqm", "def prog(a: Qint[2]) -> Qint[2]:\n    return a + 1\n"),
        ("bqm", "def prog(a: Qint[4]) -> Qint[4]:\n    return a + 1\n"),
        ("bqm", "def prog(a: Qint[2], b: Qint[2]) -> Qint[4]:\n    return a * b\n"),
        ("bqm", "def prog(a: bool, b: bool, c: bool, d: bool) -> bool:\n    return a ^ b ^ c ^ d\n"),
        ("bqm", "def prog(a: bool, b: bool, c: bool, d: bool) -> bool:\n    return a or b or c or d\n"),
        ("bqm", "def prog(a: bool, b: bool, c: bool) -> bool:\n    return (not a) ^ (not b) ^ (not c)\n"),
        ("bqm", "def prog(a: bool, b: bool, c: bool, d: bool, e: bool) -> bool:\n    return (not a) ^ (not b) ^ (not c) ^ (not d) ^ (not e)\n"),
        ("bqm", "def prog(a: bool, b: bool, c: bool) -> bool:\n    return (not a) ^ b ^ (not c)\n"),
        ("bqm", "def prog(a: bool, b: bool, c: bool, d: bool) -> Tuple[bool, bool]:\n    return ((not a) ^ (not b) ^ (not c), (not a) ^ (not (b and d)) ^ (not c) ^ d)\n"),
        ("bqm", "def prog(a: Qint[4], b: bool) -> Qint[4]:\n    return (a >> 1) ^ (4 if b else 0)\n"),
        ("bqm", "def prog(a: Qint[2], b: Qint[2]) -> Qint[2]:\n    return (a - 1) - b\n"),
    ]
    # different n-ary operators over the same operands within one return bit / across return bits
    ops = {"and": " and ", "or": " or ", "xor": " ^ "}
    for n, args in ((3, "a: bool, b: bool, c: bool"), (4, "a: bool, b: bool, c: bool, d: bool")):
        vs = ["a", "b", "c", "d"][:n]
        for o1 in ops:
            for o2 in ops:
                if o1 == o2:
                    continue
                x, y = "(" + ops[o1].join(vs) + ")", "(" + ops[o2].join(vs) + ")"
                extra.append(("bqm-sameops", "def prog(%s) -> bool:\n    return %s and not %s\n" % (args, x, y)))
                extra.append(("bqm-sameops", "def prog(%s) -> bool:\n    return %s != %s\n" % (args, x, y)))
                if n == 3:
                    extra.append(("bqm-sameops", "def prog(%s, d: bool) -> bool:\n    return (d or %s) and not %s\n" % (args, x, y)))
                    extra.append(("bqm-sameops", "def prog(%s) -> Tuple[bool, bool]:\n    return (%s, %s)\n" % (args, x, y)))
    return extra + P


DECODE_SIGS = [
    "def prog(a: bool) -> bool:\n    return not a\n",
    "def prog(a: Qint[2], b: bool) -> bool:\n    return a == 2 and b\n",
    "def prog(a: Qint[4]) -> bool:\n    return a > 9\n",
    "def prog(a: Tuple[bool, Qint[2]], b: Qint[2]) -> bool:\n    return a[0] and a[1] == b\n",
    "def prog(a: Qlist[bool, 3]) -> bool:\n    return a[0] and a[1] and not a[2]\n",
    "def prog(a: Qint[12]) -> bool:\n    return a[11] and a[10] and a[2] and not a[0]\n",
    "def prog(a: Qint[16]) -> bool:\n    return a[15] and a[11] and a[1]\n",
    "def prog(a: Tuple[Qint[2], Tuple[bool, bool]]) -> bool:\n    return a[0] == 1 and a[1][0] and not a[1][1]\n",
    "def prog(a: Qchar) -> bool:\n    return a == 'q'\n",
    "def prog(a: Tuple[Tuple[bool, Qint[2]], bool]) -> bool:\n    return a[0][0] and a[1] and a[0][1] == 2\n",
    "def prog(a: Tuple[bool, Tuple[bool, Qint[3]], Qint[2]]) -> bool:\n    return a[0] and a[1][0] and a[1][1] == 5 and a[2] == 1\n",
    "def prog(a: Qlist[Tuple[bool, Qint[2]], 2], b: bool) -> bool:\n    return a[0][0] and a[1][1] == 3 and b\n",
    "def prog(a: Tuple[bool, Qint[4], bool], b: Tuple[Qint[2], bool, bool]) -> bool:\n    return a[0] and a[1] == 9 and b[0] == 2 and b[2]\n",
    "def prog(a: Qint[3], b: Qint[3]) -> Qint[3]:\n    return a + b\n",
    "def prog(a: Qmatrix[bool, 2, 2]) -> bool:\n    return a[0][0] and a[1][1] and not a[0][1]\n",
    "def prog(a: Qint[2], b: bool) -> bool:\n    return b\n",
]


def make_items(tier, seed):
    core, rest = [], []
    for i, (fam, src) in enumerate(progs()):
        if not corpus.size_ok(src, 10, 70):
            continue
        sp = {"ob": "ground", "fam": fam, "src": src}
        (core if (fam.startswith("bqm") or i % 5 == 0) else rest).append(sp)
    for src in DECODE_SIGS:
        core.append({"ob": "decode", "src": src})
    if tier == "thorough":
        return core + rest
    return slice_quick(core + rest, seed, len(core), 140)


def check_item(spec):
    from qlasskit import QlassF, qlassf

    worker_init()
    st = Stats()
    res = {"status": "ok", "findings": [], "nontrivial": False}

    def finding(kind, what, cex=None):
        res["findings"].append({"kind": kind, "what": what, "cex": cex or {}, "replayed": True})

    try:
        qf = qlassf(spec["src"], to_compile=False)
    except Exception as e:
        res.update(status="skip", note="front-end raises %s" % type(e).__name__)
        return res
    if not isinstance(qf, QlassF) or circ.has_quantum(qf):
        res.update(status="skip", note="unbound/hybrid")
        return res
    ins = circ.input_bits(qf)
    if spec["ob"] == "decode":
        return decode_item(spec, qf, st, res, finding)
    try:
        env = boolq.seq_env(qf.expressions, ins)
    except (boolq.FreeSymbol, boolq.Unsupported) as e:
        res.update(status="skip", note="expressions unreadable: %s" % e)
        return res
    rets = list(qf.returns.bitvec)
    if any(r not in env for r in rets):
        res.update(status="skip", note="return bits undefined (C01's concern)")
        return res
    models = {}
    for fmt in ("bqm", "ising", "qubo", "pq_model"):
        try:
            models[fmt] = qf.to_bqm(fmt)
        except Exception as e:
            if "Problem is empty" in str(e) or isinstance(e, AttributeError):
                res.update(status="skip", note="constant function: %s" % str(e)[:60])
                return st.into(res)
            finding("to-bqm-raises", "to_bqm(%r) raises %s: %s" % (fmt, type(e).__name__, str(e)[:100]))
            return st.into(res)
        if not isinstance(models[fmt], pyqubo_stub.Model) or models[fmt].fmt != fmt:
            finding("format-dispatch", "to_bqm(%r) returned a %s model" % (fmt, getattr(models[fmt], "fmt", type(models[fmt]).__name__)))
    polys = {str(sorted((sorted(k), v) for k, v in m.poly.mono.items())) for m in models.values()}
    if len(polys) != 1:
        finding("format-dispatch", "the four formats are built from different expression trees")
    poly = models["pq_model"].poly
    xs = {b: z3.Bool(b) for b in ins}
    s = z3.Solver()
    s.set("rlimit", 100_000_000)
    s.set("timeout", 60_000)
    allv = sorted(poly.vars | poly.aux)
    declared_aux = set(poly.aux) | {v for v in poly.vars if v == "_ret" or v.startswith("_ret.")}
    foreign = [v for v in poly.vars if v not in ins and v not in declared_aux]
    if foreign:
        finding("foreign-variable", "model mentions %s, neither argument bits nor declared auxiliaries" % foreign)
    benv = boolq.seq_env(qf.expressions, ins)
    retz = [benv[r] for r in rets]
    W = pyqubo_stub.Poly.W
    count = z3.BitVecVal(0, W)
    for t in retz:
        count = count + z3.If(t, z3.BitVecVal(1, W), z3.BitVecVal(0, W))
    E = poly.t
    aux = sorted(v for v in allv if v not in ins)
    if len(aux) > 4:
        res.update(status="skip", note="%d auxiliaries" % len(aux))
        return st.into(res)
    # support
    s0 = z3.Solver()
    support = []
    for b in ins:
        flipped = [z3.substitute(t, (xs[b], z3.Not(xs[b]))) for t in retz]
        v0 = st.check(s0, z3.Or(*[z3.Xor(a, c) for a, c in zip(retz, flipped)]))
        if v0 == "sat":
            support.append(b)
        elif v0 != "unsat":
            res.update(status="inconclusive", note="support query: solver " + v0)
            return st.into(res)
    missing = [b for b in support if b not in poly.vars]
    if missing:
        finding("missing-variable", "the function depends on %s but the model does not mention them" % missing)
    # minima
    def minimise(term):
        s.push()
        v = st.check(s)
        if v != "sat":
            s.pop()
            return None
        cur = s.model().eval(term, model_completion=True).as_signed_long()
        while True:
            v = st.check(s, term < cur)
            if v == "sat":
                cur = s.model().eval(term, model_completion=True).as_signed_long()
            elif v == "unsat":
                break
            else:
                s.pop()
                return None
        s.pop()
        return cur

    cmin = minimise(count)
    emin = minimise(E)
    if cmin is None or emin is None:
        res.update(status="inconclusive", note="could not minimise")
        return st.into(res)
    res["nontrivial"] = True

    def estar_gt(bound):
        """for all auxiliaries E(x, aux) > bound"""
        terms = []
        for vals in itertools.product([0, 1], repeat=len(aux)):
            terms.append(z3.substitute(E, *[(z3.Bool(a), z3.BoolVal(bool(v))) for a, v in zip(aux, vals)]) > bound)
        return z3.And(*terms)

    def show(m):
        return {b: int(z3.is_true(m.eval(xs[b], model_completion=True))) for b in ins}

    v = st.check(s, E == emin, count > cmin)
    if v == "sat":
        m = s.model()
        finding("ground-state-not-minimiser", "input %s has minimum energy %d but makes %d return bits true (minimum is %d)" % (show(m), emin, m.eval(count, model_completion=True).as_signed_long(), cmin), {"inputs": show(m)})
    elif v != "unsat":
        res.update(status="inconclusive", note="solver " + v)
    v = st.check(s, count == cmin, estar_gt(emin))
    if v == "sat":
        m = s.model()
        finding("minimiser-not-ground-state", "input %s makes the fewest return bits true (%d) but every completion has energy above the minimum %d" % (show(m), cmin, emin), {"inputs": show(m)})
    elif v != "unsat":
        res.update(status="inconclusive", note="solver " + v)
    if cmin == 0:
        v = st.check(s, count == 0, estar_gt(0))
        m = s.model() if v == "sat" else None
        v2 = "unsat" if v == "sat" else st.check(s, count == 0, E < 0)
        if v == "sat" or v2 == "sat":
            m = m or s.model()
            finding("zero-not-at-energy-zero", "input %s is a zero of the function but its minimum energy is not 0" % show(m), {"inputs": show(m)})
        elif v != "unsat" or v2 != "unsat":
            res.update(status="inconclusive", note="solver %s/%s" % (v, v2))
    # sensitivity: the energy must not be constant when the count is not
    if int(item_id(spec), 16) % 4 == 0:
        s.set("rlimit", 0)  # the negative control is not part of the verdict: no resource cap, 60 s timeout
        cmax = st.check(s, count > cmin)
        if cmax == "sat":
            res["negctl"] = st.check(s, E != emin) == "sat"
    return st.into(res)


class _SymRandom:
    """environment stub: randomness returns an arbitrary value of its range (a fresh solver
    variable), so that a decoder that consults it where the sample is explicit is refuted"""

    @staticmethod
    def randint(a, b):
        c = symx._cur()
        v = c.newvar(z3.IntSort(), "rnd")
        c.extra.append(z3.And(v >= a, v <= b))
        return symx.SxInt(v)


class _FixedRandom:
    def __init__(self, v):
        self.v = v

    def randint(self, a, b):
        return min(max(self.v, a), b)


NSAMPLES = 2


def decode_item(spec, qf, st, res, finding):
    """decode_samples on a set of two symbolic samples: each argument of each decoded sample is
    the value whose bits are that sample's values of the argument's bit variables"""
    import importlib

    from .c05 import leaf_terms, mirror

    tw = symx.twin()
    twb = importlib.import_module(symx.ALIAS + ".bqm")
    m = mirror(tw, qf)
    ins = circ.input_bits(qf)
    bitsl = [{b: z3.Int("s%d_%s" % (j, b)) for b in ins} for j in range(NSAMPLES)]
    base = [z3.And(v >= 0, v <= 1) for bits in bitsl for v in bits.values()]

    def run():
        sset = [pyqubo_stub.DecodedSolution({b: symx.SxInt(v) for b, v in bits.items()}, float(j)) for j, bits in enumerate(bitsl)]
        return twb.decode_samples(m, sset)

    old_random = getattr(twb, "random", None)
    twb.random = _SymRandom
    try:
        paths, aborted = symx.explore(run, base=base, stats=st, maxpaths=400)
    finally:
        twb.random = old_random
    if aborted or not paths:
        res.update(status="inconclusive", note="decode_samples: %d aborted paths" % aborted)
        return st.into(res)
    res["nontrivial"] = True
    s = z3.Solver()
    for pc, extra, r in paths:
        s.push()
        s.add(*base, *pc, *extra)
        if r[0] == "exc":
            if st.check(s) == "sat":
                ok, what = replay_decode(qf, s.model(), bitsl)
                if not ok:
                    finding("decode-samples-raises", what)
                else:
                    res.update(status="inconclusive", note="twin raised %s but the real decode_samples does not" % type(r[1]).__name__)
            s.pop()
            continue
        dec = r[1]
        if len(dec) != NSAMPLES:
            finding("decode-samples-shape", "%d decoded samples for %d samples" % (len(dec), NSAMPLES))
            s.pop()
            continue
        bad = []
        for j, bits in enumerate(bitsl):
            for a in m.args:
                try:
                    lt = leaf_terms(dec[j].sample[a.name], a.ttype)
                except Exception as e:
                    finding("decode-samples-shape", "argument %s decoded to %r (%s)" % (a.name, dec[j].sample.get(a.name), e))
                    lt = None
                    break
                k = [0]

                def walk(t):
                    if t is bool:
                        e = ("bool", bits[a.bitvec[k[0]]] == 1)
                        k[0] += 1
                        return [e]
                    if hasattr(t, "BIT_SIZE"):
                        w = t.BIT_SIZE
                        if t.__name__.startswith("Qfixed"):
                            i_, f_ = t.BIT_SIZE_INTEGER, t.BIT_SIZE_FRACTIONAL
                            e = ("fixed", z3.Sum([bits[a.bitvec[k[0] + j2]] * 2 ** (f_ + j2) for j2 in range(i_)] + [bits[a.bitvec[k[0] + i_ + j2]] * 2 ** (f_ - 1 - j2) for j2 in range(f_)]))
                        else:
                            e = ("int", z3.Sum([bits[a.bitvec[k[0] + j2]] * 2 ** j2 for j2 in range(w)]))
                        k[0] += w
                        return [e]
                    out = []
                    for x in typing.get_args(t):
                        out += walk(x)
                    return out

                exp = walk(a.ttype)
                for (k1, x), (k2, y) in zip(lt, exp):
                    bad.append(z3.Xor(x, y) if k2 == "bool" else (x != y if k2 == "int" else x != z3.ToReal(y)))
        if bad:
            v = st.check(s, z3.Or(*bad))
            if v == "sat":
                ok, what = replay_decode(qf, s.model(), bitsl)
                if not ok:
                    finding("decode-samples-wrong", what)
                else:
                    res.update(status="inconclusive", note="decode counterexample did not reproduce on the real function")
            elif v != "unsat":
                res.update(status="inconclusive", note="solver " + v)
        s.pop()
    return st.into(res)


def replay_decode(qf, model, bitsl):
    """concrete replay on the real function; its use of `random` (if any) is pinned to each end of
    the range in turn - the decoder is wrong if some outcome of the randomness misdecodes"""
    import qlasskit.bqm as B

    from .c05 import conc_val
    from ..algo import real_value_bits

    samples = [{b: model.eval(v, model_completion=True).as_long() for b, v in bits.items()} for bits in bitsl]
    real_random = B.random
    try:
        for rv in (1, 0):
            B.random = _FixedRandom(rv)
            try:
                dec = B.decode_samples(qf, [pyqubo_stub.DecodedSolution(dict(sm), float(j)) for j, sm in enumerate(samples)])
            except Exception as e:
                return False, "samples %s: decode_samples raises %s: %s" % (samples, type(e).__name__, str(e)[:80])
            if len(dec) != len(samples):
                return False, "samples %s: %d decoded samples" % (samples, len(dec))
            for j, sm in enumerate(samples):
                for a in qf.args:
                    got = real_value_bits(conc_val(dec[j].sample[a.name]), a.ttype)
                    want = [bool(sm[b]) for b in a.bitvec]
                    if got != want:
                        return False, "samples %s: argument %s of sample #%d decoded to %r (encoding %s), the sample spells %s" % (samples, a.name, j, dec[j].sample[a.name], got, want)
    finally:
        B.random = real_random
    return True, ""


def coverage(specs, results):
    import collections

    c = collections.Counter(r["status"] for r in results)
    sk = collections.Counter(r.get("note", "")[:40] for r in results if r["status"] == "skip")
    neg = [r["negctl"] for r in results if "negctl" in r]
    judged = [r for r in results if r["status"] == "ok"]
    return {
        "programs": len(judged),
        "disagreements_checked": sum(1 for r in results if r["findings"]),
        "samples": [{"src": sp["src"], "obligation": sp["ob"], "verdict": "argmin E* = argmin count, zeros at energy 0, variables = support" if not r["findings"] else [f["kind"] for f in r["findings"]]} for sp, r in list(zip(specs, results))[:: max(1, len(specs) // 4)]][:5],
        "status_counts": dict(c),
        "skipped_reasons": dict(sk.most_common(6)),
        "negative_controls": {"run": len(neg), "detected": sum(1 for x in neg if x)},
        "distinct_nontrivial": sum(1 for r in judged if r.get("nontrivial")),
        "evaluations": len(results),
        "rule": "one item = one program (all four formats) or one decode_samples signature; energies are integer polynomials over 0/1 solver variables",
    }


if __name__ == "__main__":
    boolq.selftest()
    sys.exit(main_for(sys.modules[__name__]))
