"""C02 / C03 / C06 decision procedures (engine A over the real compiled gate list)."""
import z3

from .. import boolq, circ, corpus, corpus2
from ..common import Stats, item_id, slice_quick

RLIMIT = 50_000_000


def corpus_items(tier, seed, bool_only=False, uncompute_opts=(True, False)):
    progs = []
    small = corpus.u_bool_small()
    rnd = corpus.u_bool_random(600 if tier == "thorough" else 600)
    multi = corpus.u_bool_multistmt()
    unit = corpus.u_unit(widths=(2, 3, 4) if tier == "thorough" else (2, 3))
    ctl = corpus.u_ctl()
    orand = corpus.u_bool_or_of_ands()
    prand = corpus.u_prog_random(300)
    repo = [p for p in corpus.u_repo_frozen() if corpus.size_ok(p[1], max_bits=16, max_nodes=60)]
    isb = lambda s: "-> bool:" in s
    if bool_only:
        unit = [p for p in unit if isb(p[1])]
        ctl = [p for p in ctl if isb(p[1])]
        repo = [p for p in repo if isb(p[1])]
        multi = [p for p in multi if isb(p[1])]
        prand = [p for p in prand if isb(p[1])]
    stale = [] if bool_only else corpus.u_stale(full=True)
    selfif = corpus.u_selfif(full=True)
    if bool_only:
        selfif = [p for p in selfif if isb(p[1])]
    p2 = corpus2.u_prog2(1500 if tier == "thorough" else 500)
    if bool_only:
        p2 = [p for p in p2 if isb(p[1])]
    core = p2[:50] + small[:60] + ctl + unit[:: max(1, len(unit) // 60)][:60] + stale[::8] + selfif[4::12]
    rest = p2[50:] + small[60:] + rnd + multi + unit + repo + orand[::7] + prand + stale + selfif
    # a: Qint[4] ** 3 keeps sympy (inside qlasskit) busy for minutes per compilation - with a compile
    # history three times that: left out by text, as in C01 (membership by rule, not by wall clock)
    slow = lambda src: "a: Qint[4]" in src and "** 3" in src
    core = [p for p in core if not slow(p[1])]
    rest = [p for p in rest if not slow(p[1])]
    specs = []
    seen = set()

    def push(lst, dest):
        for fam, src in lst:
            for opt in ("default", "fast"):
                for u in uncompute_opts:
                    sp = {"fam": fam, "src": src, "opt": opt, "uncompute": u}
                    k = item_id(sp)
                    if k in seen:
                        continue
                    seen.add(k)
                    if int(k, 16) % 5 == 0:
                        sp["history"] = True  # see circ.compile_prog
                    dest.append(sp)

    c, r = [], []
    push(core, c)
    push(rest, r)
    if tier == "thorough":
        return c + r
    ncore = len(c)
    return slice_quick(c + r, seed, ncore, 2600)


def _inputs_from_model(m, names):
    return boolq.model_bools(m, names)


def check(spec, mode):
    st = Stats()
    res = {"status": "ok", "findings": [], "nontrivial": False}
    qf, why = circ.compile_prog(spec)
    if qf is None:
        res.update(status="skip", note=why)
        return res
    if circ.has_quantum(qf):
        res.update(status="skip", note="hybrid quantum gates (outside claim)")
        return res
    if mode == "C06" and qf.returns.ttype is not bool:
        res.update(status="skip", note="not a predicate")
        return res
    qc = qf.circuit()
    ins = circ.input_bits(qf)
    rets = list(qf.returns.bitvec)
    unmapped = [r for r in rets if r not in qc.qubit_map]
    if unmapped:
        if mode == "C02":
            res["findings"].append({"kind": "unmapped-ret", "what": "return bits %s have no qubit in qubit_map (output_qubits raises)" % unmapped, "cex": {}, "replayed": True})
            # the other return bits are still judged below
        else:
            res.update(status="skip", note="return bits unmapped (C02's concern)")
            return st.into(res)
    try:
        yinit = None
        if mode == "C06":
            y = z3.Bool("__y")
            yinit = {qc.qubit_map["_ret"]: y}
        env, init, fin, qc = circ.encode(qf, yinit)
    except boolq.FreeSymbol as e:
        res.update(status="skip", note="expressions have a free symbol %s (C01/C04/C07's concern)" % e)
        return st.into(res)
    except boolq.Unsupported as e:
        res.update(status="skip", note="unsupported: %s" % e)
        return st.into(res)
    n_in = len(ins)
    outq = {qc.qubit_map[r] for r in rets if r in qc.qubit_map}
    s = z3.Solver()
    s.set("rlimit", RLIMIT)
    res["nontrivial"] = len(qc.gates) > 0 and n_in > 0
    res["qubits"] = qc.num_qubits
    res["gates"] = len(qc.gates)

    def replay(model, extra_bits=None):
        asg = _inputs_from_model(model, ins)
        bits, out = circ.concrete_run(qf, asg, extra_bits)
        want = boolq.eval_exprs_concrete(qf.expressions, asg)
        return asg, bits, out, want

    if mode == "C02":
        oq_ok = True
        try:
            oq = qf.output_qubits
            if any((not isinstance(i, int)) or i < 0 or i >= qc.num_qubits for i in oq):
                res["findings"].append({"kind": "output-qubit-range", "what": "output_qubits %s out of range" % oq, "cex": {}, "replayed": True})
        except KeyError:
            oq_ok = False
        mism = [z3.Xor(fin[qc.qubit_map[r]], env[r]) for r in rets if r in qc.qubit_map]
        if mism:
            v = st.check(s, z3.Or(*mism))
            if v == "sat":
                asg, bits, out, want = replay(s.model())
                bad = [r for r in rets if r in qc.qubit_map and out[qc.qubit_map[r]] != want[r]]
                if bad:
                    res["findings"].append({"kind": "wrong-bit", "what": "input %s: circuit leaves %s on %s but expressions give %s" % (asg, [out[qc.qubit_map[r]] for r in bad], bad, [want[r] for r in bad]), "cex": {"inputs": asg}, "replayed": True})
                else:
                    res.update(status="inconclusive", note="counterexample did not reproduce on the real gate list")
            elif v != "unsat":
                res.update(status="inconclusive", note="solver: " + v)
            # sensitivity: drop the last gate that targets an output qubit -> must become sat
            if v == "unsat" and (int(item_id(spec), 16) % 4 == 0):
                idx = [i for i, (g, w, p) in enumerate(qc.gates) if w and w[-1] in outq]
                if idx:
                    g2 = list(qc.gates)
                    del g2[idx[-1]]
                    fin2 = boolq.simcirc(g2, init)
                    v2 = st.check(s, z3.Or(*[z3.Xor(fin2[qc.qubit_map[r]], env[r]) for r in rets if r in qc.qubit_map]))
                    res["negctl"] = v2 == "sat"
    else:
        # C03 / C06: frame conditions over every qubit
        dirty = []
        names = []
        for i in range(qc.num_qubits):
            if i < n_in:
                if i in outq and mode == "C03":
                    continue  # an output that lives on an input qubit is judged by C02
                dirty.append(z3.Xor(fin[i], init[i]))
                names.append(("input", i))
            elif i not in outq:
                dirty.append(fin[i])
                names.append(("scratch", i))
        if mode == "C06":
            rq = qc.qubit_map["_ret"]
            if rq < n_in:
                # there is no output qubit to flip: the oracle cannot be |x>|y> -> |x>|y ^ f(x)>
                res["findings"].append({"kind": "ret-on-input", "what": "_ret is mapped onto the argument qubit %d (%s): the circuit has no separate output qubit" % (rq, qc.get_key_by_index(rq) if hasattr(qc, "get_key_by_index") else rq), "cex": {}, "replayed": True})
                return st.into(res)
            dirty.append(z3.Xor(fin[rq], z3.Xor(init[rq], env["_ret"])))
            names.append(("ret", rq))
        if dirty:
            # one query per kind of violation, so that the set of reported kinds does not depend
            # on which model the solver happens to return
            groups = {"input-changed": [], "dirty-qubit": [], "not-xor": []}
            for (k, i), d in zip(names, dirty):
                groups[{"input": "input-changed", "scratch": "dirty-qubit", "ret": "not-xor"}[k]].append((i, d))
            v = "unsat"
            for kind, lst in groups.items():
                if not lst:
                    continue
                vk = st.check(s, z3.Or(*[d for _, d in lst]))
                if vk == "sat":
                    v = "sat"
                    m = s.model()
                    extra = None
                    if mode == "C06":
                        yv = z3.is_true(m.eval(z3.Bool("__y"), model_completion=True))
                        extra = {qc.qubit_map["_ret"]: yv}
                    asg, bits, out, want = replay(m, extra)
                    ytxt = (" y=%s" % bits[qc.qubit_map["_ret"]]) if mode == "C06" else ""
                    if kind == "input-changed":
                        bad = [i for i, _ in lst if out[i] != bits[i]]
                        msg = "input %s%s: input qubits %s changed" % (asg, ytxt, bad)
                    elif kind == "dirty-qubit":
                        bad = [i for i, _ in lst if out[i]]
                        msg = "input %s%s: scratch qubits %s left at 1" % (asg, ytxt, bad)
                    else:
                        rq = qc.qubit_map["_ret"]
                        bad = [rq] if out[rq] != (bits[rq] ^ want["_ret"]) else []
                        msg = "input %s%s: _ret qubit ends %s, expected y^f = %s" % (asg, ytxt, out[rq], bits[rq] ^ want["_ret"])
                    if bad:
                        res["findings"].append({"kind": kind, "what": msg, "cex": {"inputs": asg, "extra": extra}, "replayed": True})
                    else:
                        res.update(status="inconclusive", note="counterexample for %s did not reproduce" % kind)
                elif vk != "unsat":
                    v = vk
                    res.update(status="inconclusive", note="solver: " + vk)
            if v == "unsat" and (int(item_id(spec), 16) % 4 == 0) and len(qc.gates) > 1:
                # sensitivity: drop the last gate whose target is not an output -> dirty
                idx = [i for i, (g, w, p) in enumerate(qc.gates) if w and w[-1] not in outq]
                if idx:
                    g2 = list(qc.gates)
                    del g2[idx[-1]]
                    fin2 = boolq.simcirc(g2, init)
                    d2 = []
                    for (k, i) in names:
                        if k == "input":
                            d2.append(z3.Xor(fin2[i], init[i]))
                        elif k == "scratch":
                            d2.append(fin2[i])
                        else:
                            d2.append(z3.Xor(fin2[i], z3.Xor(init[i], env["_ret"])))
                    res["negctl"] = st.check(s, z3.Or(*d2)) == "sat"
    return st.into(res)


def coverage(specs, results, what):
    import collections

    c = collections.Counter(r["status"] for r in results)
    skips = collections.Counter(r.get("note", "")[:50] for r in results if r["status"] == "skip")
    neg = [r["negctl"] for r in results if "negctl" in r]
    judged = [r for r in results if r["status"] == "ok"]
    samples = []
    for sp, r in zip(specs, results):
        if r["status"] == "ok" and len(samples) < 4:
            samples.append({"src": sp["src"], "opt": sp["opt"], "uncompute": sp["uncompute"], "qubits": r.get("qubits"), "gates": r.get("gates"), "verdict": "holds for all inputs" if not r["findings"] else [f["kind"] for f in r["findings"]]})
    return {
        "programs": len(judged),
        "disagreements_checked": sum(1 for r in results if r["findings"]),
        "samples": samples,
        "status_counts": dict(c),
        "skipped_reasons": dict(skips.most_common(8)),
        "distinct_nontrivial": sum(1 for r in judged if r.get("nontrivial")),
        "evaluations": len(results),
        "negative_controls": {"run": len(neg), "detected": sum(1 for x in neg if x)},
        "max_qubits": max([r.get("qubits", 0) for r in judged] or [0]),
        "max_gates": max([r.get("gates", 0) for r in judged] or [0]),
        "rule": what,
    }
