"""Stand-in for the absent `pyqubo` package (C18 only): expressions are integer polynomials over
0/1 z3 Int variables with pyqubo's documented energies; arities are strict."""
import z3


class Poly:
    """multilinear integer polynomial over 0/1 variables: dict frozenset(var names) -> coefficient
    (x*x = x).  `t` renders it as a z3 Int term over z3 Bool variables named like the binaries."""

    def __init__(self, mono=None, vars_=(), aux=()):
        self.mono = dict(mono or {})
        self.vars = frozenset(vars_)
        self.aux = frozenset(aux)

    @staticmethod
    def lift(x):
        if isinstance(x, Poly):
            return x
        if isinstance(x, bool):
            return Poly({frozenset(): 1} if x else {})
        if isinstance(x, int):
            return Poly({frozenset(): x} if x else {})
        raise TypeError("pyqubo stub: cannot use %r in an expression" % (x,))

    def _mk(self, mono, o):
        return Poly({k: v for k, v in mono.items() if v != 0}, self.vars | o.vars, self.aux | o.aux)

    def __add__(self, o):
        o = Poly.lift(o)
        m = dict(self.mono)
        for k, v in o.mono.items():
            m[k] = m.get(k, 0) + v
        return self._mk(m, o)

    __radd__ = __add__

    def __neg__(self):
        return Poly({k: -v for k, v in self.mono.items()}, self.vars, self.aux)

    def __sub__(self, o):
        return self + (-Poly.lift(o))

    def __rsub__(self, o):
        return Poly.lift(o) + (-self)

    def __mul__(self, o):
        o = Poly.lift(o)
        m = {}
        for k1, v1 in self.mono.items():
            for k2, v2 in o.mono.items():
                k = k1 | k2
                m[k] = m.get(k, 0) + v1 * v2
        return self._mk(m, o)

    __rmul__ = __mul__

    W = 20  # signed bit-vector width of energies (|E| stays far below 2^19 for the corpus sizes)

    @property
    def t(self):
        """the polynomial as a signed bit-vector term over z3 Bool variables (bit-vectors instead of
        integers: z3 5.1.0's linear arithmetic core hit an internal assertion on these sums)"""
        tot = z3.BitVecVal(0, Poly.W)
        for k, v in sorted(self.mono.items(), key=lambda kv: (len(kv[0]), sorted(kv[0]))):
            if not k:
                tot = tot + z3.BitVecVal(v, Poly.W)
            else:
                tot = tot + z3.If(z3.And(*[z3.Bool(n) for n in sorted(k)]), z3.BitVecVal(v, Poly.W), z3.BitVecVal(0, Poly.W))
        return tot

    def compile(self, strength=5.0):
        return Model(self)


class Model:
    def __init__(self, poly):
        self.poly = poly
        self.fmt = "pq_model"

    def _as(self, fmt):
        m = Model(self.poly)
        m.fmt = fmt
        return m

    def to_bqm(self):
        return self._as("bqm")

    def to_ising(self):
        return self._as("ising")

    def to_qubo(self):
        return self._as("qubo")

    @property
    def variables(self):
        return sorted(self.poly.vars | self.poly.aux)

    def decode_sampleset(self, sampleset):
        return list(sampleset)


class DecodedSolution:
    def __init__(self, sample, energy=0.0):
        self.sample = sample
        self.energy = energy


def Binary(label):
    return Poly({frozenset([label]): 1}, [label])


def _two(name, args):
    if len(args) != 2:
        raise TypeError("pyqubo.%s takes exactly 2 arguments (%d given)" % (name, len(args)))
    return Poly.lift(args[0]), Poly.lift(args[1])


def And(*args):
    a, b = _two("And", args)
    return a * b


def Or(*args):
    a, b = _two("Or", args)
    return a + b - a * b


def Xor(*args):
    a, b = _two("Xor", args)
    return a + b - 2 * (a * b)


def Not(*args):
    if len(args) != 1:
        raise TypeError("pyqubo.Not takes exactly 1 argument (%d given)" % len(args))
    return 1 - Poly.lift(args[0])


def AndConst(a, b, c, label):
    a, b, c = Poly.lift(a), Poly.lift(b), Poly.lift(c)
    return a * b - 2 * ((a + b) * c) + 3 * c


def OrConst(a, b, c, label):
    a, b, c = Poly.lift(a), Poly.lift(b), Poly.lift(c)
    return a * b + (a + b) * (1 - 2 * c) + c


def NotConst(a, b, label):
    a, b = Poly.lift(a), Poly.lift(b)
    return 2 * (a * b) - a - b + 1


def XorConst(a, b, c, label):
    a, b, c = Poly.lift(a), Poly.lift(b), Poly.lift(c)
    auxn = "aux_" + str(label)
    aux = Poly({frozenset([auxn]): 1}, [], [auxn])
    return 2 * (a * b) - 2 * ((a + b) * c) - 4 * ((a + b) * aux) + 4 * (aux * c) + a + b + c + 4 * aux
