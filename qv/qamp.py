"""Engine D (QAmp): exact state-vector evolution of real qlasskit gate lists.

Amplitudes live in Z[zeta_N] (N a power of two >= 8) as vectors of N/2 integers, times a global
1/sqrt(2)^hc that is tracked as a counter.  Two encodings:

 * affine forms  : amplitude = sum_var  coef_vec(var) * var, var ranging over 0/1 indicator variables
                   (basis-state indicators [x == k], oracle indicators g[x,v] = "f(x) == v").
                   Exact and linear, so only linear integer constraints reach z3.
 * bit-vectors   : amplitudes are z3 bit-vector terms (real amplitudes only: H, X, Z, C^nX, C^nZ,
                   symbolic oracle applied any number of times) - used for Grover.
"""
import math

import z3

from qlasskit.qcircuit import gates


class Unsupported(Exception):
    pass


class SymOracle(gates.QGate):
    """|x>|y> -> |x>|y xor f(x)>, f: n bits -> m bits, *unknown*: interpreted by this engine only."""

    def __init__(self, n, m=1):
        super().__init__("ORACLE", n + m)
        self.n = n
        self.m = m


def bit(i, q):
    return (i >> q) & 1


# ------------------------------------------------------------------ cyclotomic coefficient vectors
def cz(N, c0=0):
    v = [0] * (N // 2)
    v[0] = c0
    return tuple(v)


def cadd(a, b):
    return tuple(x + y for x, y in zip(a, b))


def cneg(a):
    return tuple(-x for x in a)


def cmulz(a, j, N):
    """multiply by zeta_N^j"""
    h = N // 2
    j %= N
    out = [0] * h
    for k, x in enumerate(a):
        if x == 0:
            continue
        e = (k + j) % N
        if e >= h:
            out[e - h] -= x
        else:
            out[e] += x
    return tuple(out)


def cscale(a, c):
    return tuple(x * c for x in a)


def ciszero(a):
    return all(x == 0 for x in a)


def sqrt2_mul(a, N):
    """multiply by sqrt(2) = zeta_8 + zeta_8^-1"""
    s = N // 8
    return cadd(cmulz(a, s, N), cmulz(a, -s, N))


class Aff:
    """affine form: dict var -> coefficient vector; var None = constant term"""

    __slots__ = ("c",)

    def __init__(s, c=None):
        s.c = c or {}

    def add(s, o, sign=1):
        c = dict(s.c)
        for v, a in o.c.items():
            if sign < 0:
                a = cneg(a)
            if v in c:
                r = cadd(c[v], a)
                if ciszero(r):
                    del c[v]
                else:
                    c[v] = r
            elif not ciszero(a):
                c[v] = a
        return Aff(c)

    def neg(s):
        return Aff({v: cneg(a) for v, a in s.c.items()})

    def mulz(s, j, N):
        return Aff({v: cmulz(a, j, N) for v, a in s.c.items()})

    def isconst(s):
        return all(v is None for v in s.c)

    def const(s, N):
        return s.c.get(None, cz(N))


def phase_index(theta, N):
    k = theta * N / (2 * math.pi)
    r = round(k)
    if abs(k - r) > 1e-9:
        raise Unsupported("phase %r is not a multiple of 2pi/%d" % (theta, N))
    return int(r) % N


def pick_N(gatelist):
    for N in (8, 16, 32, 64, 128):
        try:
            for g, w, p in gatelist:
                gg = g.gate if isinstance(g, gates.QControlledGate) else g
                if isinstance(gg, gates.P):
                    phase_index(p, N)
            return N
        except Unsupported:
            continue
    raise Unsupported("phases need a root of unity of order > 128")


def gate_kind(g):
    """(kind, n_controls) with kind in X Y Z S T P H SWAP I NOP ORACLE"""
    if isinstance(g, gates.NopGate):
        return "NOP", 0
    if isinstance(g, SymOracle):
        return "ORACLE", 0
    if isinstance(g, gates.QControlledGate):
        k, _ = gate_kind(g.gate)
        return k, g.n_controls
    for cls, k in ((gates.X, "X"), (gates.Y, "Y"), (gates.Z, "Z"), (gates.S, "S"), (gates.T, "T"), (gates.P, "P"), (gates.H, "H"), (gates.Swap, "SWAP"), (gates.I, "I")):
        if isinstance(g, cls):
            return k, 0
    raise Unsupported("gate %r" % (g,))


def simulate_affine(gatelist, nq, init, N, oracle_var=lambda x, v: ("g", x, v), wires=None):
    """init: list of 2^nq Aff.  Returns (amps, hc)."""
    amp = list(init)
    hc = 0
    m = (lambda i: i) if wires is None else (lambda i: wires[i])
    size = 1 << nq
    for g, w, p in gatelist:
        kind, nc = gate_kind(g)
        if kind in ("NOP", "I"):
            continue
        w = [m(i) for i in w]
        if kind == "ORACLE":
            ins, outs = w[: g.n], w[g.n :]
            if not all(a.isconst() for a in amp):
                raise Unsupported("second oracle application (state no longer concrete): not affine")
            new = [None] * size
            for i in range(size):
                x = sum(bit(i, q) << k for k, q in enumerate(ins))
                t = Aff()
                for v in range(1 << g.m):
                    j = i
                    for k, q in enumerate(outs):
                        if bit(v, k):
                            j ^= 1 << q
                    c = amp[j].const(N)
                    if not ciszero(c):
                        t = t.add(Aff({oracle_var(x, v): c}))
                new[i] = t
            amp = new
            continue
        ctr, tgt = w[:nc], w[nc:]
        on = lambda i: all(bit(i, q) for q in ctr)
        if kind == "H":
            q = tgt[0]
            hc += 1
            if nc:
                raise Unsupported("controlled H")
            new = list(amp)
            for i in range(size):
                if not bit(i, q):
                    j = i | (1 << q)
                    new[i] = amp[i].add(amp[j])
                    new[j] = amp[i].add(amp[j], -1)
            amp = new
        elif kind == "X":
            q = tgt[0]
            amp = [amp[i ^ (1 << q)] if on(i) else amp[i] for i in range(size)]
        elif kind == "SWAP":
            a, b = tgt

            def sw(i):
                ba, bb = bit(i, a), bit(i, b)
                if ba == bb:
                    return i
                return i ^ (1 << a) ^ (1 << b)

            amp = [amp[sw(i)] if on(i) else amp[i] for i in range(size)]
        elif kind in ("Z", "S", "T", "P"):
            q = tgt[0]
            j = {"Z": N // 2, "S": N // 4, "T": N // 8}.get(kind)
            if kind == "P":
                j = phase_index(p, N)
            amp = [amp[i].mulz(j, N) if (on(i) and bit(i, q)) else amp[i] for i in range(size)]
        elif kind == "Y":
            q = tgt[0]
            # Y|0> = i|1>, Y|1> = -i|0>
            new = list(amp)
            for i in range(size):
                if on(i):
                    src = amp[i ^ (1 << q)]
                    new[i] = src.mulz(N // 4 if bit(i, q) else -N // 4, N)
            amp = new
        else:
            raise Unsupported(kind)
    return amp, hc


def basis_init(nq, N):
    """symbolic basis state: amp[i] = [x == i]"""
    one = cz(N, 1)
    return [Aff({("x", i): one}) for i in range(1 << nq)]


def zero_init(nq, N):
    one = cz(N, 1)
    return [Aff({None: one}) if i == 0 else Aff() for i in range(1 << nq)]


def aff_to_z3(a, V, N):
    """list of N/2 z3 Int terms"""
    out = []
    for k in range(N // 2):
        terms = []
        const = 0
        for v, c in a.c.items():
            if c[k] == 0:
                continue
            if v is None:
                const += c[k]
            else:
                terms.append(c[k] * V[v])
        out.append(z3.Sum(terms) + const if terms else z3.IntVal(const))
    return out


def unitary_columns(gatelist, nq, wires=None):
    """exact unitary as affine forms over the basis indicators; returns (amp, hc, N)"""
    N = pick_N(gatelist)
    amp, hc = simulate_affine(gatelist, nq, basis_init(nq, N), N, wires=wires)
    return amp, hc, N


def equal_unitaries_query(ga, gb, nq, xbits, wires_b=None):
    """z3 formula: 'on the basis state x the two circuits produce different states'.
    xbits: list of nq z3 Bools. Returns (formula, info)."""
    N = max(pick_N(ga), pick_N(gb))
    A, ha = simulate_affine(ga, nq, basis_init(nq, N), N)
    B, hb = simulate_affine(gb, nq, basis_init(nq, N), N, wires=wires_b)
    # bring to a common scale: A/sqrt2^ha == B/sqrt2^hb
    d = ha - hb
    if d > 0:
        B = _scale_sqrt2(B, d, N)
    elif d < 0:
        A = _scale_sqrt2(A, -d, N)
    diffs = []
    for k in range(1 << nq):
        sel = z3.And(*[b if bit(k, q) else z3.Not(b) for q, b in enumerate(xbits)])
        differs = any(A[i].c.get(("x", k), cz(N)) != B[i].c.get(("x", k), cz(N)) for i in range(1 << nq))
        diffs.append(z3.And(sel, z3.BoolVal(differs)))
    return z3.Or(*diffs), {"N": N, "hc": (ha, hb)}


def _scale_sqrt2(amps, d, N):
    out = []
    for a in amps:
        c = dict(a.c)
        for v in c:
            x = c[v]
            x = cscale(x, 2 ** (d // 2))
            if d % 2:
                x = sqrt2_mul(x, N)
            c[v] = x
        out.append(Aff(c))
    return out


# ------------------------------------------------------------------ dense numpy replay
def dense_unitary(gatelist, nq, oracle_table=None):
    """floating point unitary of the real gate list (replay / cross-check only)"""
    import numpy as np

    size = 1 << nq
    U = np.eye(size, dtype=complex)
    for g, w, p in gatelist:
        kind, nc = gate_kind(g)
        if kind in ("NOP", "I"):
            continue
        M = np.zeros((size, size), dtype=complex)
        if kind == "ORACLE":
            ins, outs = w[: g.n], w[g.n :]
            for i in range(size):
                x = sum(bit(i, q) << k for k, q in enumerate(ins))
                v = oracle_table[x]
                j = i
                for k, q in enumerate(outs):
                    if bit(v, k):
                        j ^= 1 << q
                M[j, i] = 1
        else:
            ctr, tgt = w[:nc], w[nc:]
            base = {
                "X": [[0, 1], [1, 0]], "Y": [[0, -1j], [1j, 0]], "Z": [[1, 0], [0, -1]], "S": [[1, 0], [0, 1j]],
                "T": [[1, 0], [0, np.exp(1j * np.pi / 4)]], "H": [[2 ** -0.5, 2 ** -0.5], [2 ** -0.5, -(2 ** -0.5)]],
            }
            if kind == "P":
                base["P"] = [[1, 0], [0, np.exp(1j * p)]]
            for i in range(size):
                if not all(bit(i, q) for q in ctr):
                    M[i, i] = 1
                    continue
                if kind == "SWAP":
                    a, b = tgt
                    j = i
                    if bit(i, a) != bit(i, b):
                        j = i ^ (1 << a) ^ (1 << b)
                    M[j, i] = 1
                else:
                    q = tgt[0]
                    m2 = base[kind]
                    b0 = bit(i, q)
                    for b1 in (0, 1):
                        j = (i & ~(1 << q)) | (b1 << q)
                        M[j, i] += m2[b1][b0]
        U = M @ U
    return U


# ------------------------------------------------------------------ bit-vector encoding (Grover)
def simulate_bv(gatelist, nq, ftab, W):
    """real amplitudes as signed bit-vectors of width W; ftab: list of z3 Bools (oracle truth table)"""
    size = 1 << nq
    amp = [z3.BitVecVal(1 if i == 0 else 0, W) for i in range(size)]
    hc = 0
    for g, w, p in gatelist:
        kind, nc = gate_kind(g)
        if kind in ("NOP", "I"):
            continue
        if kind == "ORACLE":
            if g.m != 1:
                raise Unsupported("multi-output oracle in bv encoding")
            ins, out = w[: g.n], w[g.n]
            new = [None] * size
            for i in range(size):
                x = sum(bit(i, q) << k for k, q in enumerate(ins))
                new[i] = z3.If(ftab[x], amp[i ^ (1 << out)], amp[i])
            amp = new
            continue
        ctr, tgt = w[:nc], w[nc:]
        on = lambda i: all(bit(i, q) for q in ctr)
        if kind == "H":
            if nc:
                raise Unsupported("controlled H")
            q = tgt[0]
            hc += 1
            new = list(amp)
            for i in range(size):
                if not bit(i, q):
                    j = i | (1 << q)
                    new[i] = amp[i] + amp[j]
                    new[j] = amp[i] - amp[j]
            amp = new
        elif kind == "X":
            q = tgt[0]
            amp = [amp[i ^ (1 << q)] if on(i) else amp[i] for i in range(size)]
        elif kind == "Z":
            q = tgt[0]
            amp = [-amp[i] if (on(i) and bit(i, q)) else amp[i] for i in range(size)]
        else:
            raise Unsupported("bv encoding: gate " + kind)
    return amp, hc


def selftest(n=24, seed=11):
    """engine validation: the exact affine simulation must agree with a dense floating point
    unitary (independent code path) on fixed-seed random circuits over the full gate set"""
    import cmath
    import random

    import numpy as np

    from . import circorp

    rnd = random.Random(seed)
    cnt = 0
    for i in range(n):
        nq = rnd.choice([2, 3, 4])
        gl = circorp.random_circuit(rnd, nq, rnd.randint(1, 9))
        qc = circorp.build(gl, nq)
        amp, hc, N = unitary_columns(qc.gates, nq)
        U = dense_unitary(qc.gates, nq)
        z = cmath.exp(2j * cmath.pi / N)
        for k in range(1 << nq):
            for r in range(1 << nq):
                c = amp[r].c.get(("x", k), cz(N))
                val = sum(c[j] * z ** j for j in range(N // 2)) / (2 ** (hc / 2.0))
                assert abs(val - U[r, k]) < 1e-9, ("qamp selftest", circorp.show(gl), r, k, val, U[r, k])
                cnt += 1
    return cnt
