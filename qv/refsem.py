"""Engine B (RefSem): an independent reference meaning of the *user program's* AST as z3 terms.

Shares no code with qlasskit.  Values carry the exact mathematical value `v` (two's complement
bit-vector of B bits, B chosen so that no reference operation wraps), the width `w` of the type the
documented rules give the intermediate, `ok` ("no intermediate so far left [0,2^w) of its type") and
`lw` (number of low bits still determined by wrap-around arithmetic when ok is false).
"""
import ast
import re

import z3

T = z3.BoolVal(True)
F = z3.BoolVal(False)
BUCK = [2, 4, 6, 8, 12, 16]
QINT_SIZES = [2, 3, 4, 5, 6, 7, 8, 12, 16]
QFIXED = [(1, 2), (1, 3), (1, 4), (1, 6), (2, 2), (2, 3), (2, 4), (2, 6), (3, 3), (3, 4), (3, 6), (4, 4), (4, 6)]


class Unsupported(Exception):
    """program (or construct) outside RefSem's subset: never a verdict"""


class TypeMismatch(Exception):
    """the program returns a value of another documented type than declared (same bit size or not):
    under the fixed-width types this is a type error the library must reject"""


class Undef(Exception):
    """python itself raises on every input (static out-of-range index etc.)"""


class VB:
    def __init__(s, t, ok=T):
        s.t = t
        s.ok = ok


class VI:
    """unsigned fixed width integer (kind 'int') or character (kind 'char')"""

    def __init__(s, v, w, ok=T, lw=None, hi=None, kind="int", const=None, okl=T):
        s.v = v
        s.w = w
        s.ok = ok  # exact: no intermediate so far left the range of its type
        s.okl = okl  # the low `lw` bits are determined (by wrap-around arithmetic) even if not ok
        s.lw = w if lw is None else lw
        s.hi = (2 ** w) if hi is None else hi  # |v| < hi (python int)
        s.kind = kind
        s.const = const  # python int when the value is a compile-time constant


class VF:
    """fixed point: v = value * 2^f as an integer; (i, f) integer / fractional bits"""

    def __init__(s, v, i, f, ok=T, hi=None, const=None):
        s.v = v
        s.i = i
        s.f = f
        s.ok = ok
        s.hi = (2 ** (i + f)) if hi is None else hi
        s.const = const


def bucket(w):
    for b in BUCK:
        if w <= b:
            return b
    return 16


def const_w(c):
    for w in BUCK:
        if c < 2 ** w:
            return w
    raise Unsupported("constant too big")


# --------------------------------------------------------------------------- types
def parse_type(a):
    if isinstance(a, ast.Attribute):
        a = ast.Name(id=a.attr)
    if isinstance(a, ast.Name):
        if a.id == "bool":
            return ("bool",)
        m = re.fullmatch(r"Qint(\d+)", a.id)
        if m and int(m.group(1)) in QINT_SIZES:
            return ("int", int(m.group(1)))
        m = re.fullmatch(r"Qfixed(\d+)_(\d+)", a.id)
        if m and (int(m.group(1)), int(m.group(2))) in QFIXED:
            return ("fixed", int(m.group(1)), int(m.group(2)))
        if a.id == "Qchar":
            return ("char",)
    if isinstance(a, ast.Subscript) and isinstance(a.value, ast.Name):
        n = a.value.id
        sl = a.slice
        if n == "Qint" and isinstance(sl, ast.Constant) and sl.value in QINT_SIZES:
            return ("int", sl.value)
        if n == "Qfixed" and isinstance(sl, ast.Tuple) and len(sl.elts) == 2:
            i, f = sl.elts[0].value, sl.elts[1].value
            if (i, f) in QFIXED:
                return ("fixed", i, f)
        if n == "Tuple":
            return ("tuple", [parse_type(e) for e in (sl.elts if isinstance(sl, ast.Tuple) else [sl])])
        if n == "Qlist" and isinstance(sl, ast.Tuple) and len(sl.elts) == 2 and isinstance(sl.elts[1], ast.Constant):
            k = sl.elts[1].value
            if k >= 1:
                return ("tuple", [parse_type(sl.elts[0])] * k)
        if n == "Qmatrix" and isinstance(sl, ast.Tuple) and len(sl.elts) == 3:
            t0 = parse_type(sl.elts[0])
            n1, n2 = sl.elts[1].value, sl.elts[2].value
            # Qmatrix[T, n, m]: the front-end builds n rows of m elements
            return ("tuple", [("tuple", [t0] * n2)] * n1)
    raise Unsupported("type " + ast.dump(a)[:60])


def width(t):
    if t[0] == "bool":
        return 1
    if t[0] == "int":
        return t[1]
    if t[0] == "char":
        return 8
    if t[0] == "fixed":
        return t[1] + t[2]
    return sum(width(x) for x in t[1])


def bit_names(t, base):
    """the bit naming convention of the public interface: name, name.k (little endian), nested"""
    if t[0] == "bool":
        return [base]
    if t[0] in ("int", "char", "fixed"):
        return ["%s.%d" % (base, k) for k in range(width(t))]
    out = []
    for i, x in enumerate(t[1]):
        out += bit_names(x, "%s.%d" % (base, i))
    return out


# --------------------------------------------------------------------------- interpreter
class Interp:
    def __init__(s, fdef, funs=None, B=64):
        s.fdef = fdef
        s.funs = dict(funs or {})
        s.B = B
        s.undef = F
        s.maxhi = 1

    # -- helpers
    def bv(s, c):
        return z3.BitVecVal(c, s.B)

    def note(s, hi):
        if hi > s.maxhi:
            s.maxhi = hi
        if hi >= 2 ** (s.B - 2):
            raise Unsupported("magnitude exceeds reference width")
        return hi

    def inrange(s, v, w):
        return z3.And(v >= 0, v < s.bv(2 ** w))

    def mk(s, v, w, okin, lwin, hi, const=None, okl=T):
        s.note(hi)
        if const is not None:
            okc = T if 0 <= const < 2 ** w else F
            return VI(s.bv(const), w, z3.And(okin, okc), min(lwin, w), hi, const=const, okl=okl)
        return VI(v, w, z3.And(okin, s.inrange(v, w)), min(lwin, w), hi, okl=okl)

    def cint(s, c, kind="int"):
        if c < 0:
            raise Unsupported("negative constant")
        return VI(s.bv(c), const_w(c), T, None, c + 1, kind=kind, const=c)

    def mkarg(s, t, names):
        if t[0] == "bool":
            return VB(z3.Bool(next(names)))
        if t[0] in ("int", "char"):
            w = width(t)
            s.note(2 ** (w + 1))
            bits = [z3.Bool(next(names)) for _ in range(w)]
            v = z3.Concat(z3.BitVecVal(0, s.B - w), *[z3.If(b, z3.BitVecVal(1, 1), z3.BitVecVal(0, 1)) for b in reversed(bits)])
            return VI(v, w, kind="char" if t[0] == "char" else "int")
        if t[0] == "fixed":
            i, f = t[1], t[2]
            s.note(2 ** (i + f + 1))
            bits = [z3.Bool(next(names)) for _ in range(i + f)]
            # interface order: integer part little endian, then fractional bits most significant first
            scaled = [None] * (i + f)
            for k in range(i):
                scaled[f + k] = bits[k]
            for j in range(f):
                scaled[f - 1 - j] = bits[i + j]
            v = z3.Concat(z3.BitVecVal(0, s.B - i - f), *[z3.If(b, z3.BitVecVal(1, 1), z3.BitVecVal(0, 1)) for b in reversed(scaled)])
            return VF(v, i, f)
        return tuple(s.mkarg(x, names) for x in t[1])

    # -- entry
    def call(s, args):
        env = {a.arg: v for a, v in zip(s.fdef.args.args, args)}
        r = s.block(s.fdef.body, env)
        if r is None:
            raise Unsupported("no return")
        return r

    def block(s, body, env, top=True):
        for i, st in enumerate(body):
            if isinstance(st, ast.Return):
                if not top or i != len(body) - 1:
                    raise Unsupported("return not last")
                if st.value is None:
                    raise Unsupported("bare return")
                return s.ex(st.value, env)
            elif isinstance(st, ast.Assign):
                v = s.ex(st.value, env)
                for tg in st.targets:
                    s.assign(tg, v, env)
            elif isinstance(st, ast.AnnAssign):
                if st.value is None:
                    continue
                raise Unsupported("annotated assignment")
            elif isinstance(st, ast.AugAssign):
                if not isinstance(st.target, ast.Name):
                    raise Unsupported("augassign target")
                v = s.binop(st.op, s.ex(ast.Name(st.target.id, ast.Load()), env), s.ex(st.value, env))
                env[st.target.id] = v
            elif isinstance(st, ast.Expr):
                if isinstance(st.value, ast.Call) and isinstance(st.value.func, ast.Name) and st.value.func.id == "print":
                    continue
                if isinstance(st.value, ast.Constant):
                    continue
                raise Unsupported("expression statement")
            elif isinstance(st, ast.FunctionDef):
                s.funs[st.name] = st
            elif isinstance(st, ast.For):
                if st.orelse:
                    raise Unsupported("for-else")
                for x in s.iterable(st.iter, env):
                    s.assign(st.target, x, env)
                    if s.block(st.body, env, top=False) is not None:
                        raise Unsupported("return in for")
            elif isinstance(st, ast.If):
                c = s.tobool(s.ex(st.test, env))
                e1 = dict(env)
                e2 = dict(env)
                s.block(st.body, e1, top=False)
                s.block(st.orelse, e2, top=False)
                for k in set(e1) | set(e2):
                    if k in e1 and k in e2:
                        env[k] = e1[k] if e1[k] is e2[k] else s.ite(c, e1[k], e2[k])
                    else:
                        env.pop(k, None)  # defined on one path only: later use is outside the subset
            elif isinstance(st, ast.Pass):
                raise Unsupported("pass")
            else:
                raise Unsupported(type(st).__name__)
        return None

    def assign(s, tg, v, env):
        if isinstance(tg, ast.Name):
            env[tg.id] = v
        elif isinstance(tg, (ast.Tuple, ast.List)):
            if not isinstance(v, tuple) or len(v) != len(tg.elts):
                raise Unsupported("unpack")
            for t, x in zip(tg.elts, v):
                s.assign(t, x, env)
        else:
            raise Unsupported("assignment target")

    def iterable(s, n, env):
        if isinstance(n, ast.Call) and isinstance(n.func, ast.Name) and n.func.id == "range":
            a = [s.constint(x, env) for x in n.args]
            if not 1 <= len(a) <= 3:
                raise Unsupported("range arity")
            rr = list(range(*a))
            if any(i < 0 for i in rr):
                raise Unsupported("negative range")
            if len(rr) > 64:
                raise Unsupported("long loop")
            return [s.cint(i) for i in rr]
        v = s.ex(n, env)
        if isinstance(v, tuple):
            return list(v)
        raise Unsupported("iterable")

    def constint(s, n, env):
        v = s.ex(n, env)
        if isinstance(v, VI) and v.const is not None:
            return v.const
        raise Unsupported("non-constant")

    def tobool(s, v):
        if isinstance(v, VB):
            return v
        raise Unsupported("non-bool condition")

    def ite(s, c, a, b):
        if isinstance(a, tuple) and isinstance(b, tuple) and len(a) == len(b):
            return tuple(s.ite(c, x, y) for x, y in zip(a, b))
        if isinstance(a, VB) and isinstance(b, VB):
            return VB(z3.If(c.t, a.t, b.t), z3.And(c.ok, z3.If(c.t, a.ok, b.ok)))
        if isinstance(a, VI) and isinstance(b, VI):
            if a.kind != b.kind:
                raise Unsupported("ite of char and int")
            return VI(z3.If(c.t, a.v, b.v), max(a.w, b.w), z3.And(c.ok, z3.If(c.t, a.ok, b.ok)), min(a.lw, b.lw), max(a.hi, b.hi), kind=a.kind, okl=z3.And(c.ok, z3.If(c.t, a.okl, b.okl)))
        if isinstance(a, VF) and isinstance(b, VF) and (a.i, a.f) == (b.i, b.f):
            return VF(z3.If(c.t, a.v, b.v), a.i, a.f, z3.And(c.ok, z3.If(c.t, a.ok, b.ok)), max(a.hi, b.hi))
        raise Unsupported("ite arm types")

    # -- operators
    def binop(s, op, a, b):
        if isinstance(a, VB) and isinstance(b, VB):
            f = {ast.BitXor: z3.Xor, ast.BitAnd: z3.And, ast.BitOr: z3.Or}.get(type(op))
            if f:
                return VB(f(a.t, b.t), z3.And(a.ok, b.ok))
            raise Unsupported("arithmetic on bool")
        if isinstance(a, VF) or isinstance(b, VF):
            return s.fixop(op, a, b)
        if not (isinstance(a, VI) and isinstance(b, VI)):
            raise Unsupported("operand types")
        if a.kind == "char" or b.kind == "char":
            raise Unsupported("arithmetic on char")
        ok = z3.And(a.ok, b.ok)
        okl = z3.And(a.okl, b.okl)
        lw = min(a.lw, b.lw)
        w = max(a.w, b.w)
        cc = lambda f: f(a.const, b.const) if (a.const is not None and b.const is not None) else None
        if isinstance(op, ast.Add):
            return s.mk(a.v + b.v, w, ok, lw, a.hi + b.hi, cc(lambda x, y: x + y), okl)
        if isinstance(op, ast.Sub):
            c = cc(lambda x, y: x - y)
            if c is not None and c < 0:
                raise Unsupported("negative constant")
            return s.mk(a.v - b.v, w, ok, lw, a.hi + b.hi, c, okl)
        if isinstance(op, ast.Mult):
            return s.mk(a.v * b.v, bucket(2 * w), ok, lw, a.hi * b.hi, cc(lambda x, y: x * y), okl)
        if isinstance(op, (ast.BitAnd, ast.BitOr, ast.BitXor)):
            f = {ast.BitAnd: lambda x, y: x & y, ast.BitOr: lambda x, y: x | y, ast.BitXor: lambda x, y: x ^ y}[type(op)]
            return s.mk(f(a.v, b.v), w, ok, lw, max(a.hi, b.hi) * 2, cc(f), okl)
        if isinstance(op, ast.LShift):
            if b.const is None:
                raise Unsupported("shift by non-constant")
            k = b.const
            if k > 64:
                raise Unsupported("huge shift")
            return s.mk(a.v * s.bv(2 ** k), a.w, a.ok, a.lw, a.hi * 2 ** k, None if a.const is None else a.const << k, a.okl)
        if isinstance(op, ast.RShift):
            if b.const is None:
                raise Unsupported("shift by non-constant")
            k = b.const
            if k > 64:
                raise Unsupported("huge shift")
            r = z3.LShR(a.v, k) if k < s.B else s.bv(0)
            return VI(r, a.w, a.ok, max(0, a.lw - k), a.hi, const=None if a.const is None else a.const >> k, okl=a.okl)
        if isinstance(op, ast.Mod):
            if b.const is None:
                # documented (docs/source/supported.rst): "Modulo operator only works with 2^n
                # values" - any other modulus value is outside the documented domain
                pow2 = z3.And(b.v != 0, (b.v & (b.v - 1)) == 0)
                s.undef = z3.Or(s.undef, z3.And(ok, z3.Not(pow2)))
                return VI(z3.URem(a.v, b.v), w, ok, 0, b.hi)
            m = b.const
            if m <= 0:
                raise Undef()
            if m & (m - 1) == 0:
                return VI(a.v & s.bv(m - 1), w, ok, lw, m, const=None if a.const is None else a.const % m, okl=okl)
            # general modulus: defined on in-range (non negative) values only
            return VI(z3.URem(a.v, s.bv(m)), w, ok, 0, m, const=None if a.const is None else a.const % m)
        if isinstance(op, ast.Pow):
            raise Unsupported("pow handled in ex")
        raise Unsupported("operator " + type(op).__name__)

    def fixop(s, op, a, b):
        def lift(x, like):
            if isinstance(x, VF):
                return x
            raise Unsupported("mixed fixed/int arithmetic")

        if isinstance(op, ast.Mult):
            # documented: Qfixed * integer constant only
            if isinstance(a, VF) and isinstance(b, VI) and b.const is not None:
                fx, k = a, b.const
            elif isinstance(b, VF) and isinstance(a, VI) and a.const is not None:
                fx, k = b, a.const
            else:
                raise Unsupported("fixed mul")
            hi = s.note(fx.hi * max(1, k))
            v = fx.v * s.bv(k)
            return VF(v, fx.i, fx.f, z3.And(fx.ok, s.inrange(v, fx.i + fx.f)), hi)
        a = lift(a, b)
        b = lift(b, a)
        if (a.i, a.f) != (b.i, b.f):
            a, b = s.fix_align(a, b)
        ok = z3.And(a.ok, b.ok)
        if isinstance(op, ast.Add):
            v = a.v + b.v
        elif isinstance(op, ast.Sub):
            v = a.v - b.v
        else:
            raise Unsupported("fixed operator")
        hi = s.note(a.hi + b.hi)
        return VF(v, a.i, a.f, z3.And(ok, s.inrange(v, a.i + a.f)), hi)

    def fix_align(s, a, b):
        """a constant may be re-expressed in the other operand's format when exactly representable"""
        for x, y, swap in ((a, b, False), (b, a, True)):
            if x.const is not None:
                num, f0 = x.const  # value = num / 2^f0
                if y.f >= f0:
                    sc = num * 2 ** (y.f - f0)
                elif num % (2 ** (f0 - y.f)) == 0:
                    sc = num // 2 ** (f0 - y.f)
                else:
                    raise Unsupported("constant not representable")
                if sc >= 2 ** (y.i + y.f):
                    raise Unsupported("constant not representable")
                nx = VF(s.bv(sc), y.i, y.f, T, sc + 1, const=(sc, y.f))
                return (y, nx) if swap else (nx, y)
        # two values of different formats: the common format (binary points aligned)
        i, f = max(a.i, b.i), max(a.f, b.f)

        def conv(x):
            return VF(x.v * s.bv(2 ** (f - x.f)), i, f, x.ok, s.note(x.hi * 2 ** (f - x.f)))

        return conv(a), conv(b)

    def compare(s, op, a, b):
        if isinstance(a, VB) and isinstance(b, VB):
            if isinstance(op, ast.Eq):
                return VB(a.t == b.t, z3.And(a.ok, b.ok))
            if isinstance(op, ast.NotEq):
                return VB(a.t != b.t, z3.And(a.ok, b.ok))
            raise Unsupported("ordering on bool")
        if isinstance(a, tuple) and isinstance(b, tuple):
            if len(a) != len(b):
                raise Unsupported("tuple lengths")
            parts = [s.compare(ast.Eq(), x, y) for x, y in zip(a, b)]
            e = VB(z3.And(*[p.t for p in parts]), z3.And(*[p.ok for p in parts]))
            if isinstance(op, ast.Eq):
                return e
            if isinstance(op, ast.NotEq):
                return VB(z3.Not(e.t), e.ok)
            raise Unsupported("ordering on tuples")
        if isinstance(a, VF) or isinstance(b, VF):
            if not (isinstance(a, VF) and isinstance(b, VF)):
                raise Unsupported("fixed vs int comparison")
            if (a.i, a.f) != (b.i, b.f):
                a, b = s.fix_align(a, b)
        elif isinstance(a, VI) and isinstance(b, VI):
            if (a.kind == "char" or b.kind == "char") and not isinstance(op, (ast.Eq, ast.NotEq)):
                raise Unsupported("ordering on char")
        else:
            raise Unsupported("comparison types")
        f = {
            ast.Eq: lambda x, y: x == y,
            ast.NotEq: lambda x, y: x != y,
            ast.Lt: lambda x, y: x < y,
            ast.LtE: lambda x, y: x <= y,
            ast.Gt: lambda x, y: x > y,
            ast.GtE: lambda x, y: x >= y,
        }.get(type(op))
        if not f:
            raise Unsupported("comparison operator")
        return VB(f(a.v, b.v), z3.And(a.ok, b.ok))

    def index(s, base, idx_node, env):
        try:
            i = s.constint(idx_node, env)
        except Unsupported:
            idx = s.ex(idx_node, env)
            if isinstance(base, tuple) and isinstance(idx, VI) and idx.kind == "int":
                r = base[-1]
                for k in reversed(range(len(base) - 1)):
                    r = s.ite(VB(idx.v == k, idx.ok), base[k], r)
                s.undef = z3.Or(s.undef, z3.Not(z3.And(idx.ok, idx.v >= 0, idx.v < len(base))))
                return r
            raise Unsupported("index by non-constant")
        if isinstance(base, tuple):
            if not 0 <= i < len(base):
                raise Undef()
            return base[i]
        if isinstance(base, VI) and base.kind == "int":
            if not 0 <= i < base.w:
                raise Undef()
            return VB(z3.Extract(i, i, base.v) == 1, base.okl if i < base.lw else base.ok)
        raise Unsupported("subscript base")

    def fold(s, n):
        """value of a purely literal sub-tree (the front-end folds these before typing them), else None"""
        import operator as op

        if isinstance(n, ast.Constant) and isinstance(n.value, (bool, int, float)):
            return n.value
        if isinstance(n, ast.UnaryOp):
            v = s.fold(n.operand)
            f = {ast.UAdd: op.pos, ast.USub: op.neg, ast.Not: op.not_, ast.Invert: op.invert}.get(type(n.op))
            if v is not None and f:
                return f(v)
        if isinstance(n, ast.BinOp):
            a, b = s.fold(n.left), s.fold(n.right)
            f = {ast.Add: op.add, ast.Sub: op.sub, ast.Mult: op.mul, ast.Mod: op.mod, ast.Pow: op.pow, ast.LShift: op.lshift, ast.RShift: op.rshift, ast.BitOr: op.or_, ast.BitXor: op.xor, ast.BitAnd: op.and_, ast.FloorDiv: op.floordiv, ast.Div: op.truediv}.get(type(n.op))
            if a is not None and b is not None and f:
                try:
                    return f(a, b)
                except Exception:
                    return None
        if isinstance(n, ast.Compare) and len(n.ops) == 1:
            a, b = s.fold(n.left), s.fold(n.comparators[0])
            f = {ast.Eq: op.eq, ast.NotEq: op.ne, ast.Lt: op.lt, ast.LtE: op.le, ast.Gt: op.gt, ast.GtE: op.ge}.get(type(n.ops[0]))
            if a is not None and b is not None and f:
                return f(a, b)
        if isinstance(n, ast.IfExp):
            c = s.fold(n.test)
            if c is not None:
                return s.fold(n.body if c else n.orelse)
        return None

    def ex(s, n, env):
        if not isinstance(n, ast.Constant) and isinstance(n, (ast.BinOp, ast.UnaryOp, ast.Compare, ast.IfExp)):
            c = s.fold(n)
            if c is not None:
                if isinstance(c, bool):
                    return VB(T if c else F)
                if isinstance(c, int):
                    return s.cint(c)
                if isinstance(c, float):
                    return s.cfloat(c)
        if isinstance(n, ast.Name):
            if n.id in env:
                return env[n.id]
            if n.id in ("True", "False"):
                return VB(T if n.id == "True" else F)
            raise Unsupported("unbound name " + n.id)
        if isinstance(n, ast.Constant):
            if n.value is True:
                return VB(T)
            if n.value is False:
                return VB(F)
            if isinstance(n.value, int):
                return s.cint(n.value)
            if isinstance(n.value, str) and len(n.value) == 1 and ord(n.value) < 256:
                c = ord(n.value)
                return VI(s.bv(c), 8, T, None, 256, kind="char", const=c)
            if isinstance(n.value, float):
                return s.cfloat(n.value)
            raise Unsupported("constant")
        if isinstance(n, (ast.Tuple, ast.List)):
            if not n.elts:
                raise Unsupported("empty tuple")
            return tuple(s.ex(e, env) for e in n.elts)
        if isinstance(n, ast.BoolOp):
            vs = [s.tobool(s.ex(v, env)) for v in n.values]
            f = z3.And if isinstance(n.op, ast.And) else z3.Or
            return VB(f(*[v.t for v in vs]), z3.And(*[v.ok for v in vs]))
        if isinstance(n, ast.UnaryOp):
            if isinstance(n.op, ast.USub) and isinstance(n.operand, ast.Constant):
                raise Unsupported("negative constant")
            v = s.ex(n.operand, env)
            if isinstance(n.op, ast.Not):
                v = s.tobool(v)
                return VB(z3.Not(v.t), v.ok)
            if isinstance(n.op, ast.Invert) and isinstance(v, VI) and v.kind == "int":
                if v.const is not None:
                    raise Unsupported("invert of constant")
                # python's ~x is -x-1: it leaves the range of the unsigned type, so (as for any
                # wrap-around) only the low w bits are determined - they are those of 2^w-1-x
                return s.mk(~v.v, v.w, v.ok, v.lw, v.hi + 1, None, v.okl)
            raise Unsupported("unary operator")
        if isinstance(n, ast.BinOp):
            if isinstance(n.op, ast.Pow):
                k = s.constint(n.right, env)
                a = s.ex(n.left, env)
                if k < 0 or k > 8:
                    raise Unsupported("exponent")
                if k == 0:
                    return s.cint(1)
                r = a
                for _ in range(k - 1):
                    r = s.binop(ast.Mult(), r, a)
                return r
            return s.binop(n.op, s.ex(n.left, env), s.ex(n.right, env))
        if isinstance(n, ast.IfExp):
            c = s.tobool(s.ex(n.test, env))
            return s.ite(c, s.ex(n.body, env), s.ex(n.orelse, env))
        if isinstance(n, ast.Compare):
            # python: a < b <= c  ==  (a < b) and (b <= c), each operand evaluated once (expressions
            # of the subset have no side effects). The pinned library refuses chains; if a version
            # accepts them this is what they must mean
            vals = [s.ex(n.left, env)] + [s.ex(c, env) for c in n.comparators]
            r = None
            for op_, a_, b_ in zip(n.ops, vals, vals[1:]):
                c_ = s.compare(op_, a_, b_)
                r = c_ if r is None else VB(z3.And(r.t, c_.t), z3.And(r.ok, c_.ok))
            return r
        if isinstance(n, ast.Subscript):
            return s.index(s.ex(n.value, env), n.slice, env)
        if isinstance(n, ast.Call) and isinstance(n.func, ast.Name):
            return s.callfn(n, env)
        raise Unsupported(type(n).__name__)

    def cfloat(s, c):
        import fractions

        fr = fractions.Fraction(c)
        d = fr.denominator
        if d & (d - 1) or fr < 0:
            raise Unsupported("non-dyadic constant")
        f0 = d.bit_length() - 1
        if f0 > 6 or fr.numerator >= 2 ** 10:
            raise Unsupported("constant precision")
        num = fr.numerator
        return VF(s.bv(num), 10, f0, T, num + 1, const=(num, f0))

    def callfn(s, n, env):
        f = n.func.id
        if n.keywords:
            raise Unsupported("keyword arguments")
        args = [s.ex(a, env) for a in n.args]

        def seq():
            if len(args) == 1 and isinstance(args[0], tuple):
                return list(args[0])
            return args

        if f in s.funs:
            fd = s.funs[f]
            if len(fd.args.args) != len(args):
                raise Unsupported("arity")
            # coerce actuals to the callee's declared formal types (width) like a typed call
            sub = Interp(fd, s.funs, s.B)
            cargs = []
            try:
                for a, fa in zip(args, fd.args.args):
                    cargs.append(s.coerce(a, parse_type(fa.annotation), widen=True))
                r = sub.call(cargs)
                s.maxhi = max(s.maxhi, sub.maxhi)
                s.undef = z3.Or(s.undef, sub.undef)
                return s.coerce(r, parse_type(fd.returns))
            except TypeMismatch as e:
                raise Unsupported("type mismatch at a call: %s" % e)
        if f == "len":
            if len(args) != 1 or not isinstance(args[0], tuple):
                raise Unsupported("len")
            return s.cint(len(args[0]))
        if f in ("all", "any"):
            if len(args) != 1:
                raise Unsupported(f)
            vs = [s.tobool(v) for v in seq()]
            g = z3.And if f == "all" else z3.Or
            return VB(g(*[v.t for v in vs]), z3.And(*[v.ok for v in vs]))
        if f == "sum":
            vs = seq()
            if len(args) != 1 or not vs:
                raise Unsupported("sum")
            r = vs[-1]
            for v in reversed(vs[:-1]):
                r = s.binop(ast.Add(), v, r)
            l = vs[0]
            for v in vs[1:]:
                l = s.binop(ast.Add(), l, v)
            if isinstance(r, VI):
                return VI(r.v, r.w, z3.And(r.ok, l.ok), min(r.lw, l.lw), r.hi, const=r.const, okl=z3.And(r.okl, l.okl))
            return r
        if f in ("min", "max"):
            vs = seq()
            if not vs:
                raise Unsupported(f)
            r = vs[0]
            for v in vs[1:]:
                c = s.compare(ast.Lt() if f == "min" else ast.Gt(), v, r)
                r = s.ite(c, v, r)
            return r
        if f == "ord":
            if len(args) == 1 and isinstance(args[0], VI) and args[0].kind == "char":
                a = args[0]
                return VI(a.v, 8, a.ok, a.lw, a.hi, kind="int", const=a.const, okl=a.okl)
            raise Unsupported("ord")
        if f == "chr":
            if len(args) == 1 and isinstance(args[0], VI) and args[0].kind == "int":
                a = args[0]
                return VI(a.v, a.w, a.ok, a.lw, a.hi, kind="char", const=a.const, okl=a.okl)
            raise Unsupported("chr")
        if f == "int":
            if len(args) == 1 and isinstance(args[0], VI) and args[0].kind == "int":
                return args[0]
            if len(args) == 1 and isinstance(args[0], VF):
                a = args[0]
                if a.const is not None:
                    raise Unsupported("int of constant")
                if a.i not in QINT_SIZES:
                    raise Unsupported("int() of a fixed type whose integer part has no Qint type")
                return VI(z3.LShR(a.v, a.f), a.i, a.ok, 0, 2 ** a.i)
            raise Unsupported("int")
        if f == "float":
            raise Unsupported("float")
        m = re.fullmatch(r"Qint(\d+)", f)
        if m and int(m.group(1)) in QINT_SIZES:
            if len(n.args) != 1:
                raise Unsupported("typecast arity")
            c = s.constint(n.args[0], env)
            w = int(m.group(1))
            return VI(s.bv(c % 2 ** w), w, T, None, 2 ** w, const=c % 2 ** w)
        raise Unsupported("call " + f)

    def coerce(s, v, t, widen=False):
        """value passed to / returned through a declared type: widen (zero fill) or crop.
        widen: an actual argument - narrower elements of a tuple are zero-extended one by one to
        the widths of the formal's element types, like a narrower scalar actual"""
        if t[0] == "bool":
            if isinstance(v, VB):
                return v
            raise Unsupported("coerce to bool")
        if t[0] in ("int", "char"):
            W = width(t)
            if isinstance(v, VF) and v.const is None:
                raise TypeMismatch("fixed point value where %s is declared" % t[0])
            if not isinstance(v, VI):
                raise Unsupported("coerce to int")
            want_kind = "char" if t[0] == "char" else "int"
            if v.kind != want_kind:
                if v.const is None:
                    raise TypeMismatch("%s value where %s is declared" % (v.kind, t[0]))
                raise Unsupported("char/int coercion")
            okf = z3.And(v.ok, s.inrange(v.v, W))
            return VI(v.v, W, okf, min(v.lw, W), v.hi, kind=v.kind, const=v.const if (v.const is not None and v.const < 2 ** W) else None, okl=v.okl)
        if t[0] == "fixed":
            if isinstance(v, VF):
                if (v.i, v.f) != (t[1], t[2]):
                    if v.const is None:
                        if v.i <= t[1] and v.f <= t[2]:
                            # widening: same value in the wider format
                            return VF(v.v * s.bv(2 ** (t[2] - v.f)), t[1], t[2], v.ok, s.note(v.hi * 2 ** (t[2] - v.f)))
                        raise Unsupported("fixed format coercion")
                    v = s.fix_align(v, VF(s.bv(0), t[1], t[2]))[0]
                return v
            if isinstance(v, VI) and v.const is None:
                raise TypeMismatch("%s value where Qfixed is declared" % v.kind)
            raise Unsupported("coerce to fixed")
        if t[0] == "tuple":
            if not isinstance(v, tuple) or len(v) != len(t[1]):
                raise Unsupported("tuple shape")
            out = []
            for x, tt in zip(v, t[1]):
                if tt[0] in ("int", "char") and isinstance(x, VI) and x.w != width(tt) and not (widen and x.w < width(tt)):
                    raise Unsupported("tuple element width differs from declared type")
                out.append(s.coerce(x, tt, widen))
            return tuple(out)
        raise Unsupported("coerce")


def flatten_val(it, v, t):
    """reference value (already coerced to type t) -> list of (bit term, demand condition)"""
    if t[0] == "bool":
        return [(v.t, v.ok)]
    if t[0] in ("int", "char"):
        W = width(t)
        out = []
        for k in range(W):
            bit = z3.Extract(k, k, v.v) == 1
            out.append((bit, v.okl if k < min(v.lw, W) else v.ok))
        return out
    if t[0] == "fixed":
        i, f = t[1], t[2]
        out = []
        for k in range(i):
            out.append((z3.Extract(f + k, f + k, v.v) == 1, v.ok))
        for j in range(f):
            out.append((z3.Extract(f - 1 - j, f - 1 - j, v.v) == 1, v.ok))
        return out
    r = []
    for vv, tt in zip(v, t[1]):
        r += flatten_val(it, vv, tt)
    return r


def reference(src_or_fdef, funs=None, param_values=None):
    """Returns dict(args=[(name,type)], argbits=[names], ret_type, want=[(bit, cond)], undef, B).
    param_values: name -> python literal for Parameter[...] arguments (bound as constants)."""
    fdef = src_or_fdef
    if isinstance(src_or_fdef, str):
        fdef = ast.parse(src_or_fdef).body[0]
    if not isinstance(fdef, ast.FunctionDef):
        raise Unsupported("not a function")
    if fdef.returns is None:
        raise Unsupported("no return annotation")
    if fdef.args.vararg or fdef.args.kwarg or fdef.args.kwonlyargs or fdef.args.defaults or fdef.args.posonlyargs:
        raise Unsupported("argument kinds")
    import copy

    fdef = copy.deepcopy(fdef)
    pre = []
    keep = []
    for a in fdef.args.args:
        if a.annotation is None:
            raise Unsupported("untyped argument")
        ann = a.annotation
        if isinstance(ann, ast.Subscript) and isinstance(ann.value, ast.Name) and ann.value.id == "Parameter":
            if param_values is None or a.arg not in param_values:
                raise Unsupported("unbound parameter")
            pre.append(ast.Assign(targets=[ast.Name(a.arg, ast.Store())], value=_lit_typed(param_values[a.arg], parse_type(ann.slice))))
        else:
            keep.append(a)
    fdef.args.args = keep
    fdef.body = pre + fdef.body
    argt = [parse_type(a.annotation) for a in fdef.args.args]
    rett = parse_type(fdef.returns)
    argbits = []
    for a, t in zip(fdef.args.args, argt):
        argbits += bit_names(t, a.arg)

    def run(B):
        it = Interp(fdef, funs, B)
        names = iter(argbits)
        args = [it.mkarg(t, names) for t in argt]
        rv = it.call(args)
        rv = it.coerce(rv, rett)  # may raise TypeMismatch
        return it, flatten_val(it, rv, rett)

    it, _ = run(64)
    def maxw(t):
        return max(maxw(x) for x in t[1]) if t[0] == "tuple" else width(t)

    B = max(8, it.maxhi.bit_length() + 3, maxw(rett) + 3, *[maxw(t) + 3 for t in argt] or [0])
    B = min(B, 64)
    it, want = run(B)
    return dict(args=[(a.arg, t) for a, t in zip(fdef.args.args, argt)], argbits=argbits, ret_type=rett, retbits=bit_names(rett, "_ret"), want=want, undef=it.undef, B=B, has_invert=any(isinstance(x, ast.Invert) for f in [fdef] + list((funs or {}).values()) for x in ast.walk(f)))


def _lit_typed(v, t):
    """literal for a compile-time parameter of declared type t: an integer is a value of the declared
    Qint width (the specialised function computes with the parameter's type, not with the smallest
    type that happens to hold the value)"""
    if isinstance(v, (list, tuple)) and t[0] == "tuple" and len(t[1]) == len(v):
        return ast.Tuple([_lit_typed(x, tt) for x, tt in zip(v, t[1])], ast.Load())
    if t[0] == "int" and type(v) is int and 0 <= v < 2 ** t[1] and t[1] in QINT_SIZES and const_w(v) < t[1]:
        return ast.Call(ast.Name("Qint%d" % t[1], ast.Load()), [ast.Constant(v)], [])
    return _lit(v)


def _lit(v):
    if isinstance(v, (list, tuple)):
        return ast.Tuple(elts=[_lit(x) for x in v], ctx=ast.Load())
    return ast.Constant(value=v)


# --------------------------------------------------------------------------- concrete oracle
def python_value_bits(value, t):
    """bits of a python value (result of calling the real function) in interface order; used to
    validate RefSem against the real interpreter on sample inputs."""
    if t[0] == "bool":
        return [bool(value)]
    if t[0] == "int":
        return [bool((int(value) >> k) & 1) for k in range(t[1])]
    if t[0] == "char":
        c = ord(value) if isinstance(value, str) else int(value)
        return [bool((c >> k) & 1) for k in range(8)]
    if t[0] == "fixed":
        i, f = t[1], t[2]
        sc = int(round(float(value) * 2 ** f))
        return [bool((sc >> (f + k)) & 1) for k in range(i)] + [bool((sc >> (f - 1 - j)) & 1) for j in range(f)]
    out = []
    for x, tt in zip(value, t[1]):
        out += python_value_bits(x, tt)
    return out
