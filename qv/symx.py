"""Engine C (symx): native execution of qlasskit's real leaf code, re-imported from /repo's current
source under the alias `qlasskit_sx` through an AST transformer, with z3-backed proxy values.

Path exploration = re-execution with a decision prefix (DFS).  Each completed path yields
(path condition, result | exception); obligations are discharged as z3 queries PC /\\ not post.
"""
import ast
import fractions
import importlib.abc
import importlib.machinery
import importlib.util
import os
import sys
import time

import z3

REPO_PKG = (os.environ.get("QV_REPO") or "/repo") + "/qlasskit"
ALIAS = "qlasskit_sx"


class PathAbort(BaseException):
    """bound hit on this path (counted, reported as inconclusive)"""


class Ctx:
    cur = None

    def __init__(self, base, prefix, stats):
        self.prefix = prefix
        self.trace = []
        self.pc = []
        self.base = list(base)
        self.solver = z3.Solver()
        self.solver.set("rlimit", 20_000_000)
        self.solver.add(*self.base)
        self.stats = stats
        self.fresh = 0
        self.extra = []  # side constraints introduced by shims (bit decompositions)

    def feasible(self, c):
        self.solver.push()
        self.solver.add(*self.pc, *self.extra, c)
        t = time.time()
        r = self.solver.check()
        self.stats.solver_s += time.time() - t
        self.stats.queries += 1
        self.solver.pop()
        if r == z3.unknown:
            self.stats.unknown += 1
            raise PathAbort("unknown feasibility")
        if r == z3.sat:
            self.stats.sat += 1
        else:
            self.stats.unsat += 1
        return r == z3.sat

    def decide(self, cond):
        cond = z3.simplify(cond)
        if z3.is_true(cond):
            return True
        if z3.is_false(cond):
            return False
        i = len(self.trace)
        if i < len(self.prefix):
            v = self.prefix[i]
            self.trace.append((v, False))
        else:
            t = self.feasible(cond)
            f = self.feasible(z3.Not(cond))
            if t and f:
                v = True
                self.trace.append((True, True))
            elif not t and not f:
                raise PathAbort("infeasible path")
            else:
                v = t
                self.trace.append((v, False))
        self.pc.append(cond if v else z3.Not(cond))
        return v

    def newvar(self, sort, hint="k"):
        self.fresh += 1
        # names must be stable across re-executions of the same prefix: derive from position
        return z3.Const("_sx_%s_%d_%d" % (hint, len(self.trace), self.fresh), sort)


def explore(fn, base=(), stats=None, maxpaths=2000):
    """returns (paths, aborted): paths = [(pc, extra, ('ok', value) | ('exc', exception))]"""
    from .common import Stats

    stats = stats or Stats()
    stack = [[]]
    out = []
    aborted = 0
    while stack:
        pre = stack.pop()
        c = Ctx(base, pre, stats)
        Ctx.cur = c
        try:
            res = ("ok", fn())
        except PathAbort:
            res = None
            aborted += 1
        except Exception as e:
            res = ("exc", e)
        finally:
            Ctx.cur = None
        for i in range(len(pre), len(c.trace)):
            v, both = c.trace[i]
            if both:
                stack.append([t[0] for t in c.trace[:i]] + [not v])
        if res:
            out.append((list(c.pc), list(c.extra), res))
        if len(out) + aborted > maxpaths:
            aborted += len(stack)
            break
    return out, aborted


# ----------------------------------------------------------------------------- proxies
def _cur():
    c = Ctx.cur
    if c is None:
        raise RuntimeError("symbolic value used outside explore()")
    return c


class SxBool:
    def __init__(s, t):
        s.t = t

    def __bool__(s):
        return _cur().decide(s.t)

    def __eq__(s, o):
        return SxBool(s.t == tobool(o))

    def __ne__(s, o):
        return SxBool(s.t != tobool(o))

    def __and__(s, o):
        return SxBool(z3.And(s.t, tobool(o)))

    __rand__ = __and__

    def __or__(s, o):
        return SxBool(z3.Or(s.t, tobool(o)))

    __ror__ = __or__

    def __xor__(s, o):
        return SxBool(z3.Xor(s.t, tobool(o)))

    __rxor__ = __xor__

    def __int__(s):
        return SxInt(z3.If(s.t, 1, 0))

    __hash__ = None

    def __repr__(s):
        return "SxBool(%s)" % s.t


def is_sym(x):
    return isinstance(x, (SxBool, SxInt, SxReal, SxChar, SxStr)) or (hasattr(x, "_sx_base") and is_sym(x._sx_base))


def tobool(x):
    if isinstance(x, SxBool):
        return x.t
    if isinstance(x, bool):
        return z3.BoolVal(x)
    if isinstance(x, SxInt):
        return x.t != 0
    if hasattr(x, "_sx_base"):
        return tobool(x._sx_base)
    return z3.BoolVal(bool(x))


def toint(x):
    if isinstance(x, SxInt):
        return x.t
    if isinstance(x, SxBool):
        return z3.If(x.t, 1, 0)
    if isinstance(x, bool):
        return z3.IntVal(int(x))
    if isinstance(x, int):
        return z3.IntVal(x)
    if hasattr(x, "_sx_base"):
        return toint(x._sx_base)
    raise TypeError("toint(%r)" % (x,))


def toreal(x):
    if isinstance(x, SxReal):
        return x.t
    if isinstance(x, SxInt):
        return z3.ToReal(x.t)
    if isinstance(x, SxBool):
        return z3.ToReal(z3.If(x.t, 1, 0))
    if isinstance(x, float):
        n, d = x.as_integer_ratio()
        return z3.RealVal(fractions.Fraction(n, d))
    if isinstance(x, int):
        return z3.RealVal(x)
    if hasattr(x, "_sx_base"):
        return toreal(x._sx_base)
    raise TypeError("toreal(%r)" % (x,))


def isreal(x):
    return isinstance(x, (SxReal, float)) or (hasattr(x, "_sx_base") and isreal(x._sx_base))


class SxInt:
    def __init__(s, t):
        s.t = t

    def _b(s, o, f):
        if isreal(o):
            return SxReal(f(toreal(s), toreal(o)))
        return SxInt(f(s.t, toint(o)))

    def __add__(s, o):
        return s._b(o, lambda a, b: a + b)

    __radd__ = __add__

    def __sub__(s, o):
        return s._b(o, lambda a, b: a - b)

    def __rsub__(s, o):
        return SxInt(toint(o) - s.t)

    def __mul__(s, o):
        return s._b(o, lambda a, b: a * b)

    __rmul__ = __mul__

    def __mod__(s, o):
        if isinstance(o, int) and not isinstance(o, bool) and o > 0 and Ctx.cur is not None:
            # x % m is x whenever the path condition already implies 0 <= x < m (keeps z3's
            # integer `mod` out of the bit-decomposition queries)
            if not _cur().feasible(z3.Or(s.t < 0, s.t >= o)):
                return s
        return SxInt(s.t % toint(o))

    def __floordiv__(s, o):
        return SxInt(s.t / toint(o))

    def __neg__(s):
        return SxInt(-s.t)

    # shifts by / masks with concrete non-negative integers, on values the path condition bounds to
    # 0 <= x < 2^L: one bit decomposition per value (x = sum b_j 2^j with fresh Booleans, as in
    # sx_bin) keeps every shift and mask linear (z3's integer div/mod made these queries `unknown`)
    def _decomp(s):
        c = _cur()
        cache = c.__dict__.setdefault("bitcache", {})
        k = s.t.get_id()
        if k not in cache:
            if c.feasible(s.t < 0):
                raise NotImplementedError("shift/mask of a possibly negative symbolic int")
            L = 1
            while c.feasible(s.t >= 2 ** L):
                L += 1
                if L > MAXBITS:
                    raise PathAbort("shift/mask width bound")
            bits = [c.newvar(z3.BoolSort(), "sb") for _ in range(L)]
            c.extra.append(s.t == z3.Sum([z3.If(b, 2 ** j, 0) for j, b in enumerate(bits)] + [z3.IntVal(0)]))
            cache[k] = (s.t, bits)
        return cache[k][1]

    def __rshift__(s, k):
        if not isinstance(k, int) or isinstance(k, bool) or k < 0:
            return NotImplemented
        if k == 0:
            return s
        bits = s._decomp()
        return SxInt(z3.Sum([z3.If(b, 2 ** (j - k), 0) for j, b in enumerate(bits) if j >= k] + [z3.IntVal(0)]))

    def __lshift__(s, k):
        if not isinstance(k, int) or isinstance(k, bool) or k < 0:
            return NotImplemented
        return s * (1 << k)

    def __and__(s, m):
        if not isinstance(m, int) or isinstance(m, bool) or m < 0:
            return NotImplemented
        bits = s._decomp()
        return SxInt(z3.Sum([z3.If(b, 2 ** j, 0) for j, b in enumerate(bits) if (m >> j) & 1] + [z3.IntVal(0)]))

    __rand__ = __and__

    def __truediv__(s, o):
        return SxReal(toreal(s) / toreal(o))

    def __rtruediv__(s, o):
        return SxReal(toreal(o) / toreal(s))

    def __lt__(s, o):
        return SxBool(toreal(s) < toreal(o)) if isreal(o) else SxBool(s.t < toint(o))

    def __le__(s, o):
        return SxBool(toreal(s) <= toreal(o)) if isreal(o) else SxBool(s.t <= toint(o))

    def __gt__(s, o):
        return SxBool(toreal(s) > toreal(o)) if isreal(o) else SxBool(s.t > toint(o))

    def __ge__(s, o):
        return SxBool(toreal(s) >= toreal(o)) if isreal(o) else SxBool(s.t >= toint(o))

    def __eq__(s, o):
        try:
            return SxBool(toreal(s) == toreal(o)) if isreal(o) else SxBool(s.t == toint(o))
        except TypeError:
            return False

    def __ne__(s, o):
        e = s.__eq__(o)
        return SxBool(z3.Not(e.t)) if isinstance(e, SxBool) else True

    __hash__ = None

    def __index__(s):
        # realise by forking over the feasible values (bounded by the caller's path budget)
        c = _cur()
        c.solver.push()
        c.solver.add(*c.pc, *c.extra)
        r = c.solver.check()
        if r != z3.sat:
            c.solver.pop()
            raise PathAbort("realise: " + str(r))
        v = c.solver.model().eval(s.t, model_completion=True).as_long()
        c.solver.pop()
        if c.decide(s.t == v):
            return v
        return s.__index__()

    def __int__(s):
        return s

    def __bool__(s):
        # truthiness of a symbolic integer forks on x != 0 (`x or default`, `if x:`)
        return _cur().decide(s.t != 0)

    def __repr__(s):
        return "SxInt(%s)" % z3.simplify(s.t)


class SxReal:
    def __init__(s, t):
        s.t = t

    def __add__(s, o):
        return SxReal(s.t + toreal(o))

    __radd__ = __add__

    def __sub__(s, o):
        return SxReal(s.t - toreal(o))

    def __rsub__(s, o):
        return SxReal(toreal(o) - s.t)

    def __mul__(s, o):
        return SxReal(s.t * toreal(o))

    __rmul__ = __mul__

    def __truediv__(s, o):
        return SxReal(s.t / toreal(o))

    def __rtruediv__(s, o):
        return SxReal(toreal(o) / s.t)

    def __mod__(s, o):
        if not (isinstance(o, int) and o == 1):
            raise NotImplementedError("real modulo other than 1")
        return SxReal(s.t - z3.ToReal(z3.ToInt(s.t)))

    def __lt__(s, o):
        return SxBool(s.t < toreal(o))

    def __le__(s, o):
        return SxBool(s.t <= toreal(o))

    def __gt__(s, o):
        return SxBool(s.t > toreal(o))

    def __ge__(s, o):
        return SxBool(s.t >= toreal(o))

    def __eq__(s, o):
        try:
            return SxBool(s.t == toreal(o))
        except TypeError:
            return False

    def __ne__(s, o):
        e = s.__eq__(o)
        return SxBool(z3.Not(e.t)) if isinstance(e, SxBool) else True

    __hash__ = None

    def __repr__(s):
        return "SxReal(%s)" % z3.simplify(s.t)


class SxChar:
    """one character with a symbolic code point (z3 Int)"""

    def __init__(s, t):
        s.t = t

    def __len__(s):
        return 1

    def __getitem__(s, i):
        if i in (0, -1):
            return s
        if isinstance(i, slice):
            r = [s][i]
            return r[0] if r else ""
        raise IndexError(i)

    def __iter__(s):
        return iter([s])

    def __radd__(s, o):
        return mkstr(list(o) + [s])

    def __add__(s, o):
        return mkstr([s] + list(o.cs if isinstance(o, SxStr) else o))

    def encode(s, encoding="utf-8", errors="strict"):
        """UTF-8 bytes of the character as a list of SxInt (forks on the encoded length)"""
        if encoding.lower().replace("-", "") not in ("utf8",):
            raise NotImplementedError("encode(%r) on a symbolic character" % encoding)
        c = _cur()
        if c.decide(s.t < 128):
            return [SxInt(s.t)]
        if c.decide(s.t < 2048):
            return [SxInt(192 + s.t / 64), SxInt(128 + s.t % 64)]
        raise PathAbort("encode of a code point >= 0x800")

    def __eq__(s, o):
        if isinstance(o, str) and len(o) == 1:
            return SxBool(s.t == ord(o))
        if isinstance(o, SxChar):
            return SxBool(s.t == o.t)
        if hasattr(o, "_sx_base"):
            return s.__eq__(o._sx_base)
        return False

    def __ne__(s, o):
        e = s.__eq__(o)
        return SxBool(z3.Not(e.t)) if isinstance(e, SxBool) else True

    __hash__ = None

    def __repr__(s):
        return "SxChar(%s)" % z3.simplify(s.t)


class SxStr:
    """string of concrete length whose characters are python chars or SxChar"""

    def __init__(s, cs):
        s.cs = list(cs)

    def __len__(s):
        return len(s.cs)

    def __getitem__(s, i):
        r = s.cs[i]
        return mkstr(r) if isinstance(i, slice) else r

    def __iter__(s):
        return iter(s.cs)

    def startswith(s, p):
        if len(p) > len(s.cs):
            return False
        terms = []
        for a, b in zip(s.cs, p):
            e = a == b
            if isinstance(e, SxBool):
                terms.append(e.t)
            elif not e:
                return False
        return SxBool(z3.And(*terms)) if terms else True

    def __add__(s, o):
        return mkstr(s.cs + ([o] if isinstance(o, SxChar) else list(o.cs if isinstance(o, SxStr) else o)))

    def __radd__(s, o):
        return mkstr(list(o) + s.cs)

    def __eq__(s, o):
        oc = o.cs if isinstance(o, SxStr) else (list(o) if isinstance(o, str) else None)
        if oc is None or len(oc) != len(s.cs):
            return False
        terms = []
        for a, b in zip(s.cs, oc):
            e = (a == b) if isinstance(a, SxChar) else ((b == a) if isinstance(b, SxChar) else (a == b))
            if isinstance(e, SxBool):
                terms.append(e.t)
            elif not e:
                return False
        return SxBool(z3.And(*terms)) if terms else True

    def __ne__(s, o):
        e = s.__eq__(o)
        return SxBool(z3.Not(e.t)) if isinstance(e, SxBool) else (not e)

    __hash__ = None

    def __repr__(s):
        return "SxStr(%r)" % (s.cs,)


def mkstr(cs):
    cs = list(cs)
    return "".join(cs) if all(isinstance(c, str) for c in cs) else SxStr(cs)


def char_code(c):
    return z3.IntVal(ord(c)) if isinstance(c, str) else c.t


# ----------------------------------------------------------------------------- rewritten constructs
def sx_ite(c, a, b):
    if hasattr(c, "_sx_base"):
        c = c._sx_base
    if isinstance(c, (SxInt, SxReal)):
        c = SxBool(toreal(c) != 0) if isinstance(c, SxReal) else SxBool(c.t != 0)
    if isinstance(c, SxBool):
        t = z3.simplify(c.t)
        if z3.is_true(t):
            return a()
        if z3.is_false(t):
            return b()
        x = a()
        y = b()
        if isinstance(x, (bool, SxBool)) and isinstance(y, (bool, SxBool)):
            return SxBool(z3.If(t, tobool(x), tobool(y)))
        if isinstance(x, (str, SxChar)) and isinstance(y, (str, SxChar)) and len(x) == 1 and len(y) == 1:
            return SxChar(z3.If(t, char_code(x), char_code(y)))
        if isinstance(x, (int, SxInt)) and isinstance(y, (int, SxInt)) and not isinstance(x, bool) and not isinstance(y, bool):
            return SxInt(z3.If(t, toint(x), toint(y)))
        if isinstance(x, (int, float, SxInt, SxReal)) and isinstance(y, (int, float, SxInt, SxReal)) and not isinstance(x, bool) and not isinstance(y, bool):
            return SxReal(z3.If(t, toreal(x), toreal(y)))
        return x if _cur().decide(t) else y
    return a() if c else b()


def sx_not(x):
    if hasattr(x, "_sx_base") and is_sym(x):
        x = x._sx_base
    if isinstance(x, SxBool):
        return SxBool(z3.Not(x.t))
    if isinstance(x, SxInt):
        return SxBool(x.t == 0)
    return not x


def sx_boolop(is_and, *thunks):
    """python `and` / `or` with merging when every operand is bool-like"""
    vals = []
    first = thunks[0]()
    if not isinstance(first, SxBool):
        # concrete first operand: ordinary short-circuit semantics
        cur = first
        for th in thunks[1:]:
            if (is_and and not cur) or (not is_and and cur):
                return cur
            cur = th()
            if isinstance(cur, SxBool):
                rest = thunks[thunks.index(th) + 1 :]
                return sx_boolop(is_and, lambda c=cur: c, *rest) if rest else cur
        return cur
    vals.append(first)
    for th in thunks[1:]:
        v = th()
        if not isinstance(v, (bool, SxBool)):
            # non boolean operand: fall back to forking semantics
            acc = vals[0]
            for w in vals[1:]:
                acc = SxBool((z3.And if is_and else z3.Or)(acc.t, tobool(w)))
            if is_and:
                return v if bool(acc) else False
            return True if bool(acc) else v
        vals.append(v)
    return SxBool((z3.And if is_and else z3.Or)(*[tobool(v) for v in vals]))


def sx_join(sep, it):
    it = list(it)
    if isinstance(sep, str) and sep == "":
        out = []
        for x in it:
            if isinstance(x, SxChar):
                out.append(x)
            elif isinstance(x, SxStr):
                out.extend(x.cs)
            else:
                out.extend(list(x))
        return mkstr(out)
    return sep.join(it)


MAXBITS = 20


def sx_bin(v):
    if hasattr(v, "_sx_base"):
        return sx_bin(v._sx_base)
    if not isinstance(v, SxInt):
        return bin(v)
    c = _cur()
    if c.decide(v.t < 0):
        raise NotImplementedError("bin of a negative symbolic int")
    L = 1
    while not c.decide(v.t < 2 ** L):
        L += 1
        if L > MAXBITS:
            raise PathAbort("bin length bound")
    # bits are fresh Bool variables tied to the value by one linear constraint
    bits = [c.newvar(z3.BoolSort(), "bit") for _ in range(L)]
    c.extra.append(v.t == z3.Sum([z3.If(b, 2 ** k, 0) for k, b in enumerate(bits)]))
    return SxStr(["0", "b"] + [SxChar(z3.If(bits[k], 49, 48)) for k in reversed(range(L))])


def sx_ord(x):
    if hasattr(x, "_sx_base"):
        x = x._sx_base
    if isinstance(x, SxChar):
        return SxInt(x.t)
    if isinstance(x, SxStr) and len(x) == 1:
        return sx_ord(x.cs[0])
    return ord(x)


def sx_chr(x):
    if hasattr(x, "_sx_base"):
        x = x._sx_base
    if isinstance(x, SxInt):
        c = _cur()
        if c.decide(z3.Or(x.t < 0, x.t > 0x10FFFF)):
            raise ValueError("chr() arg not in range(0x110000)")
        return SxChar(x.t)
    return chr(x)


def sx_int(x=0, base=10):
    if hasattr(x, "_sx_base"):
        return sx_int(x._sx_base) if base == 10 else sx_int(x._sx_base, base)
    if isinstance(x, SxChar):
        x = SxStr([x])
    if isinstance(x, SxStr):
        if base != 2:
            raise NotImplementedError("int(str, base!=2) on symbolic string")
        c = _cur()
        bad = []
        for ch in x.cs:
            if isinstance(ch, SxChar):
                bad.append(z3.And(ch.t != 48, ch.t != 49))
            elif ch not in "01":
                bad.append(z3.BoolVal(True))
        if not x.cs or (bad and c.decide(z3.Or(*bad))):
            raise ValueError("invalid literal for int() with base 2")
        n = len(x.cs)
        tot = z3.IntVal(0)
        for k, ch in enumerate(x.cs):
            b = z3.If(ch.t == 49, 1, 0) if isinstance(ch, SxChar) else z3.IntVal(int(ch))
            tot = tot + b * 2 ** (n - 1 - k)
        return SxInt(tot)
    if isinstance(x, SxInt):
        return x
    if isinstance(x, SxBool):
        return SxInt(z3.If(x.t, 1, 0))
    if isinstance(x, SxReal):
        # python truncates toward zero; all symbolic reals handled here are non negative
        c = _cur()
        if c.decide(x.t < 0):
            raise NotImplementedError("int() of a negative symbolic real")
        return SxInt(z3.ToInt(x.t))
    return int(x, base) if isinstance(x, str) else int(x)


class _ShimMeta(type):
    def __call__(cls, *a, **k):
        if cls.__dict__.get("_sx_root", False):
            return cls._sx_convert(*a, **k)
        o = object.__new__(cls)
        o._sx_base = a[0] if a else cls._sx_default
        o.__init__(*a, **k)
        return o

    def __instancecheck__(cls, inst):
        if cls.__dict__.get("_sx_root", False):
            if isinstance(inst, cls._sx_proxies):
                return True
            if type.__instancecheck__(cls._sx_builtin, inst):
                return True
        return type.__instancecheck__(cls, inst)

    def __subclasscheck__(cls, sub):
        if cls.__dict__.get("_sx_root", False) and type.__subclasscheck__(cls._sx_builtin, sub):
            return True
        return type.__subclasscheck__(cls, sub)


def _deleg(name):
    def f(self, *a):
        b = self._sx_base
        a = tuple(x._sx_base if hasattr(x, "_sx_base") else x for x in a)
        r = getattr(b, name)(*a)
        if r is NotImplemented and len(a) == 1:
            refl = {"__add__": "__radd__", "__sub__": "__rsub__", "__mul__": "__rmul__", "__eq__": "__eq__", "__ne__": "__ne__", "__lt__": "__gt__", "__gt__": "__lt__", "__le__": "__ge__", "__ge__": "__le__"}.get(name)
            if refl and hasattr(a[0], refl):
                return getattr(a[0], refl)(b)
        return r

    f.__name__ = name
    return f


class IntShim(metaclass=_ShimMeta):
    """stands in for `int` as a *base class* / constructor inside the twin modules"""

    _sx_root = True
    _sx_builtin = int
    _sx_proxies = (SxInt,)
    _sx_default = 0
    _sx_convert = staticmethod(sx_int)

    def __init__(self, *a, **k):
        pass

    __hash__ = None

    def __index__(self):
        return self._sx_base.__index__()

    def __int__(self):
        return sx_int(self._sx_base)

    def __bool__(self):
        return bool(self._sx_base != 0)

    def __repr__(self):
        return "%s(%r)" % (type(self).__name__, self._sx_base)

    def bit_length(self):
        return self._sx_base.bit_length()


for _n in ("__add__", "__radd__", "__sub__", "__rsub__", "__mul__", "__rmul__", "__mod__", "__floordiv__", "__lt__", "__le__", "__gt__", "__ge__", "__eq__", "__ne__", "__and__", "__or__", "__xor__", "__rshift__", "__lshift__", "__neg__", "__pow__", "__rpow__", "__truediv__"):
    setattr(IntShim, _n, _deleg(_n))


class FloatShim(metaclass=_ShimMeta):
    _sx_root = True
    _sx_builtin = float
    _sx_proxies = (SxReal,)
    _sx_default = 0.0

    @staticmethod
    def _sx_convert(x=0.0):
        if hasattr(x, "_sx_base"):
            x = x._sx_base
        if isinstance(x, SxReal):
            return x
        if isinstance(x, SxInt):
            return SxReal(z3.ToReal(x.t))
        return float(x)

    def __init__(self, *a, **k):
        pass

    __hash__ = None

    def __float__(self):
        return self._sx_base

    def __int__(self):
        return sx_int(self._sx_base)

    def __repr__(self):
        return "%s(%r)" % (type(self).__name__, self._sx_base)


for _n in ("__add__", "__radd__", "__sub__", "__rsub__", "__mul__", "__rmul__", "__mod__", "__lt__", "__le__", "__gt__", "__ge__", "__eq__", "__ne__", "__truediv__", "__neg__"):
    setattr(FloatShim, _n, _deleg(_n))


class StrShim(metaclass=_ShimMeta):
    _sx_root = True
    _sx_builtin = str
    _sx_proxies = (SxStr, SxChar)
    _sx_default = ""

    @staticmethod
    def _sx_convert(x=""):
        if hasattr(x, "_sx_base") and is_sym(x):
            return x._sx_base
        if isinstance(x, (SxStr, SxChar)):
            return x
        if is_sym(x):
            raise NotImplementedError("str() of a symbolic number")
        return str(x)

    def __init__(self, *a, **k):
        pass

    __hash__ = None

    def __len__(self):
        return len(self._sx_base)

    def __getitem__(self, i):
        return self._sx_base[i]

    def __iter__(self):
        return iter(self._sx_base)

    def __str__(self):
        return str(self._sx_base)

    def __repr__(self):
        return "%s(%r)" % (type(self).__name__, self._sx_base)


for _n in ("__eq__", "__ne__", "__add__", "__radd__"):
    setattr(StrShim, _n, _deleg(_n))


def sx_len(x):
    return len(x)


def sx_round(x, nd=None):
    """python's round() (half to even) on a symbolic non-negative real; exact on the dyadic
    rationals that arise from bit patterns, confirmed by replay on the real code otherwise"""
    if hasattr(x, "_sx_base") and is_sym(x):
        x = x._sx_base
    if not isinstance(x, SxReal):
        return round(x) if nd is None else round(x, nd)
    scale = 10 ** (nd or 0)
    y = x.t * scale
    n = z3.ToInt(y)
    frac = y - z3.ToReal(n)
    half = z3.RealVal("1/2")
    r = z3.If(frac < half, n, z3.If(frac > half, n + 1, z3.If(n % 2 == 0, n, n + 1)))
    if nd is None:
        return SxInt(r)
    return SxReal(z3.ToReal(r) / scale)


# ----------------------------------------------------------------------------- source transformer
def _lam(body):
    return ast.Lambda(args=ast.arguments(posonlyargs=[], args=[], kwonlyargs=[], kw_defaults=[], defaults=[]), body=body)


def _call(name, args):
    return ast.Call(func=ast.Name(name, ast.Load()), args=args, keywords=[])


class Tr(ast.NodeTransformer):
    def visit_IfExp(s, n):
        s.generic_visit(n)
        return ast.copy_location(_call("_sx_ite", [n.test, _lam(n.body), _lam(n.orelse)]), n)

    def visit_UnaryOp(s, n):
        s.generic_visit(n)
        if isinstance(n.op, ast.Not):
            return ast.copy_location(_call("_sx_not", [n.operand]), n)
        return n

    def visit_BoolOp(s, n):
        s.generic_visit(n)
        return ast.copy_location(_call("_sx_boolop", [ast.Constant(isinstance(n.op, ast.And))] + [_lam(v) for v in n.values]), n)

    def visit_Call(s, n):
        s.generic_visit(n)
        if isinstance(n.func, ast.Attribute) and n.func.attr == "join" and len(n.args) == 1 and not n.keywords:
            return ast.copy_location(_call("_sx_join", [n.func.value, n.args[0]]), n)
        # if-conversion of a filtered sum: sum(E for x in it if C) == sum((E if C else 0) for x in it)
        # (one generator, one filter; keeps a w-bit decoder at one path instead of 2^w)
        if isinstance(n.func, ast.Name) and n.func.id == "sum" and len(n.args) == 1 and not n.keywords and isinstance(n.args[0], (ast.GeneratorExp, ast.ListComp)):
            ge = n.args[0]
            if len(ge.generators) == 1 and len(ge.generators[0].ifs) == 1 and not ge.generators[0].is_async:
                g0 = ge.generators[0]
                elt = _call("_sx_ite", [g0.ifs[0], _lam(ge.elt), _lam(ast.Constant(0))])
                ng = ast.comprehension(target=g0.target, iter=g0.iter, ifs=[], is_async=0)
                n.args[0] = type(ge)(elt=elt, generators=[ng])
                return ast.fix_missing_locations(ast.copy_location(n, n))
        return n

    def visit_If(s, n):
        s.generic_visit(n)
        # if-conversion of `if T: x op= E` / `if T: x = E` (single statement, no else, simple name)
        if not n.orelse and len(n.body) == 1:
            b = n.body[0]
            if isinstance(b, ast.AugAssign) and isinstance(b.target, ast.Name):
                cur = ast.Name(b.target.id, ast.Load())
                new = ast.BinOp(left=ast.Name(b.target.id, ast.Load()), op=b.op, right=b.value)
                return ast.copy_location(ast.Assign(targets=[ast.Name(b.target.id, ast.Store())], value=_call("_sx_ite", [n.test, _lam(new), _lam(cur)])), n)
        return n


SHIMS = {
    "_sx_ite": sx_ite,
    "_sx_not": sx_not,
    "_sx_boolop": sx_boolop,
    "_sx_join": sx_join,
}
TYPE_SHIMS = {"bin": sx_bin, "int": IntShim, "float": FloatShim, "str": StrShim, "ord": sx_ord, "chr": sx_chr, "round": sx_round}
# modules in which the builtin names int/float/str/bin/ord/chr are shadowed by the shims
SHIM_MODULES = ("types", "qlassfun", "bqm", "algorithms", "qcircuit.qcircuitwrapper")

EXECUTED = set()


class Loader(importlib.machinery.SourceFileLoader):
    def source_to_code(self, data, path, *, _optimize=-1):
        tree = Tr().visit(ast.parse(data))
        ast.fix_missing_locations(tree)
        return compile(tree, path, "exec", dont_inherit=True)

    def exec_module(self, module):
        module.__dict__.update(SHIMS)
        rel = module.__name__[len(ALIAS) + 1 :]
        if any(rel == m or rel.startswith(m + ".") for m in SHIM_MODULES):
            module.__dict__.update(TYPE_SHIMS)
        super().exec_module(module)

    def get_code(self, fullname):
        # never use cached bytecode: the twin is compiled from the current source on every run
        data = self.get_data(self.get_filename(fullname))
        return self.source_to_code(data, self.get_filename(fullname))


class Finder(importlib.abc.MetaPathFinder):
    def find_spec(self, name, path, target=None):
        if name != ALIAS and not name.startswith(ALIAS + "."):
            return None
        rel = name.split(".")[1:]
        base = os.path.join(REPO_PKG, *rel)
        if os.path.isdir(base):
            init = os.path.join(base, "__init__.py")
            return importlib.util.spec_from_file_location(name, init, loader=Loader(name, init), submodule_search_locations=[base])
        if os.path.exists(base + ".py"):
            return importlib.util.spec_from_file_location(name, base + ".py", loader=Loader(name, base + ".py"))
        return None


_installed = False


def twin():
    """import (once per process) and return the instrumented twin package"""
    global _installed
    if not _installed:
        sys.meta_path.insert(0, Finder())
        _installed = True
    import importlib

    return importlib.import_module(ALIAS)


# ----------------------------------------------------------------------------- harness helpers
def sym_bools(prefix, n):
    return [SxBool(z3.Bool("%s%d" % (prefix, i))) for i in range(n)]


def post_holds(paths, post, stats, base=()):
    """post(result) -> z3 Bool (or python bool).  Returns list of counterexample dicts
    {model, path_index, result}; an exception result is passed to post as ('exc', e)."""
    cex = []
    s = z3.Solver()
    s.set("rlimit", 50_000_000)
    for i, (pc, extra, res) in enumerate(paths):
        p = post(res)
        if p is True:
            continue
        if p is False:
            p = z3.BoolVal(False)
        s.push()
        s.add(*base, *pc, *extra, z3.Not(p))
        v = stats.check(s)
        if v == "sat":
            cex.append({"model": s.model(), "path": i, "result": res})
        elif v != "unsat":
            cex.append({"model": None, "path": i, "result": res, "unknown": True})
        s.pop()
    return cex
